"""C03 — version table = heads of the applied set: the REAL MigrationContext.run_migrations / HeadMaintainer on
SQLite, driven by plans of the REAL ScriptDirectory._upgrade_revs/_downgrade_revs, vs Model.Heads.run_cmds."""
import itertools
import random
import re
import types

from harness import coqfmt as cf

PROP = "C03"
COQ = dict(imports=["Model.Heads", "Spec.C03"], in_ty="c03_any", out_ty="c03_anyout",
           corr="corr_C03_any", decide="check_C03_any", model="model_C03_any")
THEOREMS = ["C03_decider_sound", "C03_step", "C03_invariant", "C03_endpoints", "C03_model_from_empty", "C03_trace",
            "C03_model_transitions", "C03_upgrade_command", "C03_downgrade_command", "C03_plans_are_valid",
            "C03_command_sequence", "C03_any_decider_sound", "C03_as_sql_same_statements", "C03_as_sql_same_trace",
            "C03_offline_invariant", "C03_offline_script"]
TRUSTED = [
    "SQLite + SQLAlchemy execute the three bookkeeping statements (INSERT / DELETE..WHERE / UPDATE..WHERE) as the "
    "list model says; their matched-row counts are observed (cursor.rowcount) and compared on every statement",
    "the revision graph is given to the model already loaded (ids = load positions, depends_on resolved to ids); "
    "the observed _normalized_resolved_dependencies are checked against the model of _normalize_depends_on on every case",
    "plans come from the real _upgrade_revs/_downgrade_revs and are inputs of the model; that every step of a real plan is "
    "valid (the hypothesis of the theorems) is checked by the decider on every step",
]
ASSUME = [
    "wf_refs G (distinct ids, every down_revision/depends_on names a revision), no directed cycle over "
    "down_revision+depends_on (the loader's own checks, property C15), r_ndeps as computed by _normalize_depends_on",
    "steps are valid: an upgrade of r needs all of all_down(r) applied and r not applied; a downgrade of r needs r applied "
    "and no applied revision with r among its all_down (what C01/C02 say about the planners)",
    "online mode on a dialect with supports_sane_rowcount; offline (--sql) mode: the model carries the as_sql flag (rowcount check "
    "skipped), the emitted statements are compared with the real as_sql MigrationContext (dialect sqlite); the script text framing "
    "(CREATE/DROP TABLE, comments, transactions) belongs to C12/C18",
]
RULE = ("quick: EVERY history of <=4 revisions in topological load order where each earlier revision is absent / a "
        "down_revision / a depends_on of each later one (1+3+27+729 graphs, redundant parents included) x EVERY antichain "
        "state S x EVERY command (upgrade <id>|heads, downgrade <id>|base), each state reached from the empty database by "
        "real `upgrade s` commands and restored with `downgrade base` (one case = one (graph, S) with all commands, i.e. the "
        "complete transition relation, which subsumes all command sequences of any length); ALL sequences of <=3 commands on "
        "every history of <=2 revisions and of <=2 commands on 3 revisions (thorough: 3 on 3); seeded random histories of 5-10 revisions (shuffled load order, merges, "
        "dependencies, redundant parents) with <=8 random commands; seeded off-domain start states (duplicate rows without "
        "primary key, non-antichain rows) where only the model/implementation comparison speaks; version_table name / "
        "version_table_schema (ATTACHed SQLite database) / version_table_pk variants on the real-sequence cases of <=3 revisions, "
        "all 2-command sequences on 2 revisions and the random cases (every command re-reads the rows through the real "
        "MigrationContext.get_current_heads / _has_version_table). OFFLINE (--sql): for every history of <=4 revisions x every antichain starting_rev x every command the real MigrationContext "
        "in as_sql mode; the statements emitted after every step and the heads given to on_version_apply are compared with the "
        "model's as_sql run, and the decider replays the emitted script on a table holding starting_rev. thorough adds the reversed "
        "load order, parents that are both down_revision and depends_on, version_table name/schema/pk variants, all "
        "sequences of 3 commands on a sample of 4-revision histories and 10x the random cases. After EVERY step: rows as a "
        "multiset, every statement with its matched-row count, and the exception class are compared with the model; "
        "non-trivial = at least one step ran")
EXHAUSTIVE = {"quick": True, "thorough": True}
CASE_TIMEOUT = 30

# ----------------------------------------------------------------------------- generators

def _g(n, down, deps, order=None):
    order = list(range(n)) if order is None else order
    return [{"id": i, "down": sorted(down.get(i, ())), "deps": sorted(deps.get(i, ()))} for i in order]


def topo_graphs(n, both=False):
    """node i chooses for every j<i: nothing / down_revision / depends_on (/ both, if `both`)"""
    per = [list(itertools.product(range(4 if both else 3), repeat=i)) for i in range(n)]
    for combo in itertools.product(*per):
        down, deps = {}, {}
        for i, ch in enumerate(combo):
            for j, c in enumerate(ch):
                if c in (1, 3):
                    down.setdefault(i, []).append(j)
                if c in (2, 3):
                    deps.setdefault(i, []).append(j)
        yield down, deps


def _closure(par, S):
    out, st = set(), list(S)
    while st:
        u = st.pop()
        if u in out:
            continue
        out.add(u)
        st.extend(par[u])
    return out


def antichains(n, down, deps):
    par = {i: set(down.get(i, ())) | set(deps.get(i, ())) for i in range(n)}
    cl = {i: _closure(par, [i]) for i in range(n)}
    for r in range(n + 1):
        for S in itertools.combinations(range(n), r):
            if any(a != b and a in cl[b] for a in S for b in S):
                continue
            yield list(S)


def commands(n):
    return [["up", "r%d" % i] for i in range(n)] + [["up", "heads"]] + \
           [["down", "r%d" % i] for i in range(n)] + [["down", "base"]]


def transition_cases(n, both=False, rev_order=False, cfg=None, replay=False):
    """one case per (history, antichain state S): every command from S.
    replay=False: S is written into the table before every command (reset mode);
    replay=True: one long real command sequence from the empty database: `downgrade base`, `upgrade s` for s in S, command"""
    for down, deps in topo_graphs(n, both):
        g = _g(n, down, deps, list(range(n))[::-1] if rev_order else None)
        for S in antichains(n, down, deps):
            if not replay:
                yield {"g": g, "rows0": S, "reset": True, "cmds": commands(n), "cfg": cfg, "kind": "transition-n%d" % n}
                continue
            cmds = []
            for c in commands(n):
                cmds.append(["down", "base"])
                cmds.extend(["up", "r%d" % s] for s in S)
                cmds.append(c)
            yield {"g": g, "rows0": [], "cmds": cmds, "cfg": cfg, "kind": "replayed-n%d" % n}


def offline_cases(n):
    """--sql mode: one case per (history, antichain S): every command as an offline run with starting_rev = S"""
    for down, deps in topo_graphs(n):
        g = _g(n, down, deps)
        for S in antichains(n, down, deps):
            yield {"offline": True, "g": g, "rows0": S, "reset": True, "cmds": commands(n), "cfg": None, "kind": "offline-n%d" % n}


def sequence_cases(n, length, cfg=None):
    for down, deps in topo_graphs(n):
        g = _g(n, down, deps)
        for seq in itertools.product(commands(n), repeat=length):
            yield {"g": g, "rows0": [], "cmds": [list(c) for c in seq], "cfg": cfg, "kind": "seq%d-n%d" % (length, n)}


def rand_dag(rnd, n):
    topo = list(range(n))
    rnd.shuffle(topo)
    pos = {x: i for i, x in enumerate(topo)}
    pmerge, pdep, predundant = rnd.choice([0.2, 0.4]), rnd.choice([0.2, 0.4]), rnd.choice([0.0, 0.3])
    down, deps = {}, {}
    for x in range(n):
        earlier = [y for y in topo if pos[y] < pos[x]]
        d, p = [], []
        if earlier and rnd.random() < 0.85:
            k = 1 if rnd.random() > pmerge else min(len(earlier), rnd.choice([2, 2, 3]))
            d = rnd.sample(earlier, k)
        rest = [y for y in earlier if y not in d]
        if rest and rnd.random() < pdep:
            p = rnd.sample(rest, min(len(rest), rnd.choice([1, 1, 2])))
        if d and rnd.random() < predundant:      # a parent of a parent as an extra (redundant) parent
            par = {i: set(down.get(i, ())) | set(deps.get(i, ())) for i in earlier}
            anc = _closure(par, d) - set(d) - set(p)
            if anc:
                (d if rnd.random() < 0.5 else p).append(rnd.choice(sorted(anc)))
        if d:
            down[x] = d
        if p:
            deps[x] = p
    return down, deps


def random_cases(rnd, count, cfgs=(None,)):
    for _ in range(count):
        n = rnd.randint(5, 10)
        down, deps = rand_dag(rnd, n)
        g = _g(n, down, deps)
        cs = commands(n)
        cmds = [list(rnd.choice(cs)) for _ in range(rnd.randint(3, 8))]
        if rnd.random() < 0.5:
            cmds.insert(0, ["up", "heads"])
        yield {"g": g, "rows0": [], "cmds": cmds, "cfg": rnd.choice(cfgs), "kind": "random"}


def offdomain_cases(rnd, count):
    """start states outside the property's domain (only the exact model/implementation comparison speaks)"""
    for _ in range(count):
        n = rnd.randint(2, 5)
        down, deps = rand_dag(rnd, n)
        g = _g(n, down, deps)
        rows0 = [rnd.randrange(n) for _ in range(rnd.randint(1, 4))]
        cs = commands(n)
        yield {"g": g, "rows0": rows0, "cmds": [list(rnd.choice(cs)) for _ in range(rnd.randint(1, 3))],
               "cfg": {"table": "alembic_version", "schema": None, "pk": False}, "kind": "offdomain"}


CFGS = [None, {"table": "vt", "schema": None, "pk": True}, {"table": "alembic_version", "schema": None, "pk": False},
        {"table": "my versions", "schema": "aux", "pk": True}]


def generate(tier, seed):
    rnd = random.Random(seed * 7919 + 3)
    for n in (1, 2, 3, 4):
        yield from transition_cases(n)
    for n in (1, 2, 3):
        yield from transition_cases(n, replay=True)
    for n in (1, 2, 3, 4):
        yield from offline_cases(n)
    for n in (1, 2, 3):
        for ln in (1, 2, 3):
            if ln * n < 9 or tier == "thorough":
                yield from sequence_cases(n, ln)
    # version_table name / version_table_schema (ATTACHed database) / version_table_pk variants: real multi-command
    # sequences, the rows being read back by the real get_current_heads() at the start of every command
    for cfg in CFGS[1:]:
        for n in (2, 3):
            yield from transition_cases(n, cfg=cfg, replay=True)
        yield from sequence_cases(2, 2, cfg=cfg)
    yield from random_cases(rnd, 600 if tier == "quick" else 6000, CFGS)
    yield from offdomain_cases(rnd, 300 if tier == "quick" else 3000)
    if tier == "thorough":
        yield from transition_cases(4, replay=True)
        for n in (2, 3, 4):
            yield from transition_cases(n, rev_order=True)
        for n in (2, 3):
            yield from transition_cases(n, both=True)
        for cfg in CFGS[1:]:
            yield from transition_cases(3, cfg=cfg)
            yield from transition_cases(4, cfg=cfg)
        allg = list(topo_graphs(4))
        for down, deps in rnd.sample(allg, 40):
            g = _g(4, down, deps)
            for seq in itertools.product(commands(4), repeat=3):
                yield {"g": g, "rows0": [], "cmds": [list(c) for c in seq], "cfg": None, "kind": "seq3-n4"}


def search(tier, seed):
    rnd = random.Random(seed * 104729 + 3)
    yield from random_cases(rnd, 4000)
    for n in (3, 4):
        yield from transition_cases(n, rev_order=True)

# ----------------------------------------------------------------------------- implementation side

_name = lambda i: "r%d" % i
_back = lambda s: int(s[1:])
_NM = r'(?:\w+|"[^"]+")(?:\.(?:\w+|"[^"]+"))*'          # [schema.]table[.column], each part bare or double-quoted
_INS = re.compile(r"^INSERT INTO " + _NM + r" \(version_num\) VALUES \('(r\d+)'\)(?: RETURNING version_num)?$")
_DEL = re.compile(r"^DELETE FROM " + _NM + r" WHERE " + _NM + r" = '(r\d+)'$")
_UPD = re.compile(r"^UPDATE " + _NM + r" SET version_num='(r\d+)' WHERE " + _NM + r" = '(r\d+)'$")


def parse_stmt(statement, rowcount):
    st = " ".join(statement.split())
    if not st.startswith(("INSERT", "DELETE", "UPDATE")):
        return None
    if st.startswith("DELETE FROM") and "WHERE" not in st:
        return None          # the harness's own reset of the table
    m = _INS.match(st)
    if m:
        return ("ins", _back(m.group(1)))
    m = _DEL.match(st)
    if m:
        return ("del", _back(m.group(1)), rowcount)
    m = _UPD.match(st)
    if m:
        return ("upd", _back(m.group(2)), _back(m.group(1)), rowcount)
    raise RuntimeError("unrecognised bookkeeping statement: %r" % st)


def build(g):
    """real RevisionMap / ScriptDirectory over Script-like revisions whose migrations do nothing"""
    from alembic.script.revision import RevisionMap, Revision
    from alembic.script.base import ScriptDirectory

    class Rev(Revision):
        def __init__(self, *a, **k):
            super().__init__(*a, **k)
            self.module = types.SimpleNamespace(upgrade=lambda **kw: None, downgrade=lambda **kw: None)
            self.doc = None

    tup = lambda xs: tuple(_name(x) for x in xs) if xs else None
    revs = [Rev(_name(r["id"]), tup(r["down"]), dependencies=tup(r["deps"])) for r in g]
    m = RevisionMap(lambda: revs)
    m._revision_map
    s = ScriptDirectory.__new__(ScriptDirectory)
    s.revision_map = m
    enc = [{"id": r["id"], "down": r["down"], "deps": sorted(_back(x) for x in m.get_revision(_name(r["id"]))._resolved_dependencies),
            "ndeps": [_back(x) for x in m.get_revision(_name(r["id"]))._normalized_resolved_dependencies]} for r in g]
    return s, m, enc


def err_class(e):
    from alembic import util
    if isinstance(e, KeyError):
        return "EKey"
    if isinstance(e, AssertionError):
        return "EAssert"
    if isinstance(e, util.CommandError):
        return "ECommand"
    if isinstance(e, IndexError):
        return "EIndex"
    return "EOther"


def open_db(cfg):
    import sqlalchemy as sa
    eng = sa.create_engine("sqlite://")
    conn = eng.connect()
    opts = {}
    table, schema = "alembic_version", None
    if cfg:
        table, schema = cfg["table"], cfg["schema"]
        opts = {"version_table": table, "version_table_schema": schema, "version_table_pk": cfg["pk"]}
        if schema:
            conn.exec_driver_sql("ATTACH DATABASE ':memory:' AS %s" % schema)
    qual = ('"%s".' % schema if schema else "") + '"%s"' % table
    return eng, conn, opts, qual


def select_rows(conn, qual):
    import sqlalchemy as sa
    return [_back(r[0]) for r in conn.execute(sa.text("SELECT version_num FROM %s" % qual))]


def run_offline(h):
    """the real MigrationContext in as_sql mode (dialect sqlite, no connection): the statements the HeadMaintainer emits
    into the script after every step, and the heads handed to on_version_apply"""
    import io
    import logging
    import warnings
    warnings.simplefilter("ignore")
    logging.disable(logging.CRITICAL)
    from alembic.runtime.migration import MigrationContext

    s, m, enc = build(h["g"])
    cmds_enc, outs, nsteps, errs = [], [], 0, set()
    for kind, tgt in h["cmds"]:
        buf = io.StringIO()
        plan, planerr, obs, pos = [], [], [], [0]

        def fn(heads, ctx):
            try:
                f = s._upgrade_revs if kind == "up" else s._downgrade_revs
                plan.extend(f(tgt, heads))
            except Exception as e:
                planerr.append(type(e).__name__)
            return list(plan)

        def cb(ctx, step, heads, run_args):
            text = buf.getvalue()[pos[0]:]
            pos[0] = len(buf.getvalue())
            stmts = []
            for line in text.splitlines():
                line = line.strip()
                if line.endswith(";") and line.startswith(("INSERT", "UPDATE", "DELETE")):
                    stmts.append(parse_stmt(line[:-1], 0))
            obs.append(("ok", sorted(_back(x) for x in heads), stmts))

        ctx = MigrationContext.configure(dialect_name="sqlite", opts={
            "as_sql": True, "output_buffer": buf, "fn": fn, "on_version_apply": [cb],
            "starting_rev": [_name(r) for r in h["rows0"]] or None})
        try:
            ctx.run_migrations()
        except Exception as e:
            cls = err_class(e)
            errs.add(cls)
            obs.append(("err", cls))
        if planerr:
            errs.add("plan:" + planerr[0])
        endk = "EndNone"
        if not planerr and kind == "up" and tgt == "heads":
            endk = "EndHeads"
        elif not planerr and kind == "down" and tgt == "base":
            endk = "EndBase"
        cmds_enc.append((endk, [(_back(st.revision.revision), bool(st.is_upgrade)) for st in plan]))
        outs.append(obs)
        nsteps += len([x for x in obs if x[0] == "ok"])

    def stmt(p):
        if p[0] == "ins":
            return "Ins %d" % p[1]
        if p[0] == "del":
            return "Del %d 0" % p[1]
        return "Upd %d %d 0" % (p[1], p[2])

    def ob(x):
        if x[0] == "ok":
            return "SOk %s %s" % (cf.nlist(x[1]), cf.lst(stmt(p) for p in x[2]))
        return "SErr %s" % x[1]

    cin = "COff (%s, %s, true, %s)" % (cf.graph(enc), cf.nlist(h["rows0"]), cf.lst(
        "(%s, %s)" % (e, cf.lst("RevStep %d %s" % (r, cf.boolean(up)) for r, up in st)) for e, st in cmds_enc))
    cout = "OOff %s" % cf.lst(cf.lst(ob(x) for x in o) for o in outs)
    out = {"cmds": [[e, st] for e, st in cmds_enc], "obs": outs, "offline": True, "errs": sorted(errs)}
    shape = "%s%s" % (h.get("kind", "?"), "-" + "+".join(sorted(errs)) if errs else "")
    return dict(cin=cin, cout=cout, out=out, nontrivial=nsteps > 0, shape=shape, steps=nsteps)


def run_case(h):
    if h.get("offline"):
        return run_offline(h)
    import warnings
    import logging
    warnings.simplefilter("ignore")
    logging.disable(logging.CRITICAL)
    import sqlalchemy as sa
    from sqlalchemy import event
    from alembic.runtime.migration import MigrationContext

    s, m, enc = build(h["g"])
    eng, conn, opts, qual = open_db(h.get("cfg"))
    cmds_enc, outs, harness_fail = [], [], []
    nsteps = 0
    errs = set()
    try:
        log = []

        @event.listens_for(conn, "after_cursor_execute")
        def ace(c, cursor, statement, parameters, context, executemany):
            try:
                p = parse_stmt(statement, cursor.rowcount)
            except RuntimeError as e:          # a harness problem: must not be mistaken for an alembic exception
                harness_fail.append(str(e))
                raise
            if p:
                log.append(p)

        ctx0 = MigrationContext.configure(conn, opts=dict(opts))
        ctx0._ensure_version_table()
        reset = bool(h.get("reset"))

        def set_rows():
            conn.execute(sa.text("DELETE FROM %s" % qual))
            for r in h["rows0"]:
                conn.execute(sa.text("INSERT INTO %s (version_num) VALUES ('%s')" % (qual, _name(r))))

        set_rows()
        del log[:]
        for kind, tgt in h["cmds"]:
            plan, planerr, obs = [], [], []
            if reset and cmds_enc:
                set_rows()
                del log[:]

            def fn(heads, ctx):
                try:
                    f = s._upgrade_revs if kind == "up" else s._downgrade_revs
                    plan.extend(f(tgt, heads))
                except Exception as e:       # planner refusal: the command runs no step (C01/C02/C16 territory)
                    planerr.append(type(e).__name__)
                return list(plan)

            def cb(ctx, step, heads, run_args):
                obs.append(("ok", select_rows(conn, qual), list(log)))
                del log[:]

            o = dict(opts)
            o.update({"fn": fn, "on_version_apply": [cb]})
            ctx = MigrationContext.configure(conn, opts=o)
            failed = None
            try:
                ctx.run_migrations()
            except Exception as e:
                failed = err_class(e)
                errs.add(failed)
                obs.append(("err", failed))
            endk = "EndNone"
            if not planerr:
                if kind == "up" and tgt == "heads":
                    endk = "EndHeads"
                elif kind == "down" and tgt == "base":
                    endk = "EndBase"
            else:
                errs.add("plan:" + planerr[0])
            steps = [(_back(st.revision.revision), bool(st.is_upgrade)) for st in plan]
            nsteps += len([x for x in obs if x[0] == "ok"])
            cmds_enc.append((endk, steps))
            outs.append(obs)
            if failed and not reset:
                break
    finally:
        conn.close()
        eng.dispose()

    if harness_fail:
        raise RuntimeError(harness_fail[0])

    def stmt(p):
        if p[0] == "ins":
            return "Ins %d" % p[1]
        if p[0] == "del":
            return "Del %d %d" % (p[1], p[2])
        return "Upd %d %d %d" % (p[1], p[2], p[3])

    def ob(x):
        if x[0] == "ok":
            return "ObsOk %s %s" % (cf.nlist(x[1]), cf.lst(stmt(p) for p in x[2]))
        return "ObsErr %s" % x[1]

    cin = "COn (%s, %s, %s, %s)" % (cf.graph(enc), cf.nlist(h["rows0"]), cf.boolean(bool(h.get("reset"))), cf.lst(
        "(%s, %s)" % (e, cf.lst("RevStep %d %s" % (r, cf.boolean(up)) for r, up in st)) for e, st in cmds_enc))
    cout = "OOn %s" % cf.lst(cf.lst(ob(x) for x in o) for o in outs)
    out = {"cmds": [[e, st] for e, st in cmds_enc], "obs": outs, "ndeps": {r["id"]: r["ndeps"] for r in enc if r["ndeps"]},
           "offline": False, "errs": sorted(errs)}
    cfg = h.get("cfg")
    shape = "%s%s%s" % (h.get("kind", "?"), "" if not cfg else "-cfg:%s/%s/%s" % (cfg["table"], cfg["schema"], "pk" if cfg["pk"] else "nopk"),
                        "-" + "+".join(sorted(errs)) if errs else "")
    return dict(cin=cin, cout=cout, out=out, nontrivial=nsteps > 0, shape=shape, steps=nsteps)


def classify(human, out):
    return None


# ----------------------------------------------------------------------------- canaries
def _enc_out(outs, offline):
    def stmt(p):
        if p[0] == "ins":
            return "Ins %d" % p[1]
        if p[0] == "del":
            return "Del %d %d" % (p[1], 0 if offline else p[2])
        return "Upd %d %d %d" % (p[1], p[2], 0 if offline else p[3])

    def ob(x):
        if x[0] == "ok":
            return "%s %s %s" % ("SOk" if offline else "ObsOk", cf.nlist(x[1]), cf.lst(stmt(p) for p in x[2]))
        return "%s %s" % ("SErr" if offline else "ObsErr", x[1])
    return "%s %s" % ("OOff" if offline else "OOn", cf.lst(cf.lst(ob(x) for x in o) for o in outs))


def canary(human, rec):
    """corruptions of the observed trace that violate C03 for this input (the unmodified output is assumed to satisfy it)"""
    out = rec["out"]
    if human.get("kind") == "offdomain" or any(not e.startswith("plan:") for e in out.get("errs", [])):
        return []                        # start state outside the property's domain / a real exception: nothing to corrupt
    offline = out["offline"]
    outs = [[list(x) for x in o] for o in out["obs"]]
    ci = next((i for i, o in enumerate(outs) if o and all(x[0] == "ok" for x in o)), None)
    if ci is None:
        return []
    k = len(outs[ci]) - 1                # corrupt the last step of the first command that ran steps

    def variant(f):
        import copy
        o2 = copy.deepcopy(outs)
        if f(o2[ci]) is False:
            return None
        return _enc_out(o2, offline)

    def err(o):                          # success turned into an exception
        o[k] = ["err", "EKey"]

    def drop_obs(o):                     # an observation (a step) missing
        del o[k]

    cans = [variant(err), variant(drop_obs)]
    if offline:                          # the decider replays the emitted statements on a table holding starting_rev
        def drop_stmt(o):
            if not o[k][2]:
                return False
            o[k][2] = o[k][2][:-1]

        def dup_stmt(o):
            if not o[k][2]:
                return False
            o[k][2] = o[k][2] + [o[k][2][-1]]

        def wrong_id(o):                 # one identifier of a statement changed
            if not o[k][2]:
                return False
            p = list(o[k][2][0])
            p[-1 if p[0] == "ins" else (1 if p[0] == "del" else 2)] += 7
            o[k][2][0] = tuple(p)
        cans += [variant(drop_stmt), variant(dup_stmt), variant(wrong_id)]
    else:
        def lose_row(o):
            if not o[k][1]:
                return False
            o[k][1] = o[k][1][1:]

        def dup_row(o):                  # a stale / duplicated row
            if o[k][1]:
                o[k][1] = o[k][1] + [o[k][1][0]]
            else:
                o[k][1] = [0]

        def stale_rows(o):               # the step did not change the table
            prev = o[k - 1][1] if k > 0 else (human["rows0"] if ci == 0 or human.get("reset") else None)
            if prev is None or sorted(prev) == sorted(o[k][1]):
                return False
            o[k][1] = list(prev)

        def rowcount(o):                 # a DELETE/UPDATE that matched two rows
            for j, p in enumerate(o[k][2]):
                if p[0] != "ins":
                    q = list(p)
                    q[-1] = 2
                    o[k][2][j] = tuple(q)
                    return
            return False
        cans += [variant(lose_row), variant(dup_row), variant(stale_rows), variant(rowcount)]
    return [c for c in cans if c is not None and c != rec["cout"]]


DESIGN_REF = "DESIGN.md section 5 C03, Appendix A' (C03 step invariant), Appendix B F11"
TECHNIQUE = ("Coq proof by induction over arbitrary valid step sequences that the modelled HeadMaintainer.update_to_step keeps "
             "rows = maximal(applied) with every statement matching exactly one row, tied to the code by an exact per-step "
             "correspondence (rows multiset, statements with matched-row counts, exception class) against the real "
             "MigrationContext/HeadMaintainer on SQLite, exhaustive over the transition relation of all histories of <=4 revisions")
LEVEL_TEXT = ("Machine-checked, unbounded: for every well-formed acyclic history (any size, merges, depends_on, redundant parents), "
              "every valid sequence of upgrade/downgrade steps from the empty database and every iteration order of the un-merge set, "
              "the model of update_to_step never errs, every DELETE/UPDATE matches exactly one row, and after every step the rows are "
              "duplicate-free, are exactly the maximal applied revisions, form an antichain and imply exactly the applied set; "
              "all applied => rows are the history's heads, nothing applied => empty table. The model is compared step by step with the "
              "real code on the complete transition relation of every history of <=4 revisions and on random larger ones.")
LEVEL_NOTE = ("Trusted: Coq kernel+vm_compute, the hand-written model (tied by correspondence, exhaustive only up to 4 revisions), the "
              "Python harness. Plan validity is a hypothesis of the theorems (C01/C02), checked on every real plan by the decider. "
              "Execution of the three SQL statements is observed on SQLite, not modelled beyond list semantics; offline mode, relative "
              "targets and branch labels are outside.")
