"""C01 — upgrade plan: real ScriptDirectory._upgrade_revs vs Model.Plan.upgrade_plan."""
import random

from harness import coqfmt as cf
from harness import graphs as gr
from harness import cmd_suite as cs

PROP = "C01"
COQ = dict(imports=["Model.Plan", "Spec.C01"], in_ty="input01", out_ty="pres (list N)",
           corr="corr_C01", decide="check_C01", inclass="inclass_C01", model="model_C01")
SUITES = {"cmd": cs.SUITE, "cmdseq": cs.SUITE_SEQ}
cleanup = cs.cleanup
THEOREMS = ["C01_whole_command_model", "C01_whole_command_decider_sound", "C01_cyclic_history_refused", "C01_session_model_holds", "C01_session_decider_sound", "C01_session_state_preserved", "C01_session_rows_reread", "C01_session_next_rows_in_domain", "C01_plan_exact", "C01_total", "C01_model_holds", "C01_decider_sound", "C01_inclass", "C01_normalisation", "C01_upgrade_heads_applies_all"]
TRUSTED = ["target strings (ids, partial ids, head(s), label@head, rev+N) are resolved by the real "
           "_parse_upgrade_target and handed to the model as revision ids: C01 is planner-after-resolution, "
           "target resolution itself is C16",
           "order oracle: the stored order of _normalized_resolved_dependencies is observed and passed to the model; "
           "the theorems hold for every order (ndeps_ok only constrains the set)"]
TRUSTED = TRUSTED + ["suite cmd (whole command): SQLite/SQLAlchemy execute the bookkeeping statements as the list model says; the script files, env.py and alembic.command.upgrade are the real ones; the set-iteration orders of _add_branches and of _normalized_resolved_dependencies are observed from the RevisionMap the command itself built (in-process subclass that records and delegates) and handed to the model as oracles, their CONTENT is recomputed by the model and compared"]
ASSUME = ["history loads (acyclic, references present)", "current rows are revision ids of the history"]
RULE = ("exhaustive: every acyclic history on <=4 revisions (none/down_revision/depends_on per earlier revision), identity and "
        "reversed load order, every antichain of revisions as current rows, targets {each id, heads, id+1, +1, +2}; "
        "labelled family: every acyclic history on <=3 (sampled for 4) revisions with a branch label on each revision in turn, every antichain state, requests {label@head, label@+1, label@+2, head}; seeded random: histories of 5-10 revisions (merges, depends_on, redundant parents, branch labels) with rows reached by "
        "random upgrade/downgrade/stamp commands of the real planner, targets incl. head, label@head, partial ids, rev+N. "
        "plus end-to-end runs (real script files, env.py, command.upgrade on SQLite: the plan is the order in which upgrade() functions actually ran; 40 quick / 1500 thorough). thorough adds all load orders for <=4 and 40x the random budget. non-trivial = non-empty plan; distinct by encoded case")
RULE = RULE + (" || suite cmd, the whole command end to end (real script directory, env.py, SQLite, alembic.command.upgrade with the target string exactly as typed; observed: which scripts ran in which order, the version table afterwards, the exception class): EVERY acyclic history of <=3 revisions x EVERY antichain version table x every target spelling of a fixed list (ids, partial ids, head(s), base, +N/-N, id+N/id-N, junk, ranges a:b), the same with a branch label on each revision in turn (label@head, label@+N/-N, label@id, label), 40 sampled (thorough: all 729) histories of 4 revisions, seeded random histories of 4-8 revisions with labels, merges and depends_on; compared exactly with Model.Command.run_command and judged by Spec.Command.check_cmd; histories WITH cycles (all digraphs on 2 revisions, sampled on 3) must be refused; suite cmdseq: SESSIONS of typed commands on one database from the empty state (every pair of commands from a fixed list on every history of 2 revisions and sampled histories of 3; random sessions of 3-6 commands on random histories of 3-8 revisions), every command observed with the rows it found, chained")
EXHAUSTIVE = {"quick": True, "thorough": True}
CASE_TIMEOUT = 10
DESIGN_REF = "DESIGN.md section 5 C01, Appendix A"
TECHNIQUE = ("Coq proof: invariant of the transcribed _topological_sort loop + DFS reachability lemmas give 'plan = missing "
             "ancestors, each once, in a linear extension' for every acyclic history and state; termination by a decreasing "
             "potential; exact exhaustive small-scope correspondence with the real planner evaluated by vm_compute")
LEVEL_TEXT = ("Machine-checked for all finite acyclic revision graphs, all current-row sets and all resolved target sets: the "
              "modelled _collect_upgrade_revisions + _topological_sort returns exactly ancestors(targets) minus ancestors(rows), "
              "without repetition, every revision after its down revisions and dependencies, never runs out of fuel and never "
              "trips the `assert not todo`. The model is compared exactly (same order) with the real _upgrade_revs on every "
              "history of up to 4 revisions x every antichain state x targets, plus seeded random larger histories in "
              "states reached through the real commands.")
LEVEL_NOTE = ("Trusted: Coq kernel/vm_compute, the hand model (tied by correspondence), harness encoders; target-string resolution is "
              "observed from the real code (verified under C16), hash-order of normalized dependencies is an observed oracle.")


def _targets(g, m=None, rnd=None, rich=False):
    """structured requests with the string alembic is given: [(struct, string)]"""
    names = [r["name"] for r in g]
    labels = [l for r in g for l in r.get("labels", ())]
    ts = [(("ids", [n]), n) for n in names] + [(("heads",), "heads"), (("relcur", 1), "+1"), (("relcur", 2), "+2")]
    ts += [(("relid", n, 1), n + "+1") for n in names]
    if rich:
        ts += [(("head",), "head")]
        for n in names:      # partial ids: a prefix (>= 4 chars) that is a prefix of exactly this id and of no label
            for k in range(4, len(n)):
                p = n[:k]
                if sum(1 for x in names + labels if x.startswith(p)) == 1:
                    ts.append((("ids", [n]), p))
                    break
        ts += [(("other",), n + "-1") for n in names] + [(("relid", n, 2), n + "+2") for n in names]
        for l in labels:
            ts += [(("labelhead", l), l + "@head"), (("other",), l + "@heads"), (("labelrel", l, 1), l + "@+1"),
                   (("labelrel", l, 2), l + "@+2")]
    return ts


def _coq_tgt(struct, g):
    ix = gr.index(g)
    li = gr.label_index(g)
    k = struct[0]
    if k == "ids":
        return "(TIds %s)" % cf.nlist(ix[n] for n in struct[1])
    if k == "heads":
        return "THeads"
    if k == "head":
        return "THead"
    if k == "labelhead":
        return "(TLabelHead %d)" % li[struct[1]]
    if k == "relid":
        return "(TRelId %d %d%%nat)" % (ix[struct[1]], struct[2])
    if k == "relcur":
        return "(TRelCur %d%%nat)" % struct[1]
    if k == "labelrel":
        return "(TLabelRel %d %d%%nat)" % (li[struct[1]], struct[2])
    return "TOther"


def generate(tier, seed):
    yield from cs.generate(True, tier, seed)      # whole commands, end to end (suite "cmd")
    yield from cs.generate_sessions(tier, seed)   # sessions of typed commands on one database (suite "cmdseq")
    yield from _generate_plans(tier, seed)


def _generate_plans(tier, seed):
    rnd = random.Random(seed * 1000003 + 1)
    for n in (1, 2, 3, 4):
        for g in gr.acyclic_graphs(n):
            orders = [g, g[::-1]] if n > 1 and (n < 4 or tier == "thorough" or rnd.random() < 0.25) else [g]
            if tier == "thorough" and n > 2:
                import itertools
                orders = [list(p) for p in itertools.permutations(g)]
            for go in orders:
                for S in gr.antichains(go):
                    for st, t in _targets(go):
                        yield {"g": go, "S": S, "t": t, "st": list(st)}
    # human-readable ids that CONTAIN one another (acct, bill_acct, ...): every acyclic history on <=3 (thorough: 4) revisions
    # with nested names in both nesting directions (a string test where a tuple/set test is meant shows up only here)
    for nested in (("acct", "b_acct", "c_b_acct", "d_c_b_acct"), ("d_c_b_acct", "c_b_acct", "b_acct", "acct")):
        for n in ((2, 3, 4) if tier == "thorough" else (2, 3)):
            for g in gr.acyclic_graphs(n, names=nested):
                for S in gr.antichains(g):
                    for st, t in _targets(g):
                        yield {"g": g, "S": S, "t": t, "st": list(st)}
    # labelled family: every acyclic history on 3 and (sampled) 4 revisions, a branch label on one revision (and sometimes
    # a second one elsewhere), every antichain state, the label / head forms
    for n in (2, 3, 4):
        for g in gr.acyclic_graphs(n):
            if n == 4 and tier == "quick" and rnd.random() > 0.12:
                continue
            for li in range(n):
                g2 = [dict(r, labels=(["lab0"] if i == li else [])) for i, r in enumerate(g)]
                if n > 2 and rnd.random() < 0.3:
                    lj = rnd.choice([i for i in range(n) if i != li])
                    g2[lj] = dict(g2[lj], labels=["lab1"])
                for S in gr.antichains(g2):
                    for st, t in _targets(g2, rich=True):
                        if st[0] in ("labelhead", "labelrel", "head"):
                            yield {"g": g2, "S": S, "t": t, "st": list(st)}
    # deep chains: offsets with two digits need a history at least that deep (and over-long offsets must not resolve)
    for width in (1, 3):
        g = [{"name": "r" + str(i).zfill(width), "down": (["r" + str(i - 1).zfill(width)] if i else []), "deps": [], "labels": (["lab0"] if i == 0 else [])}
             for i in range(13)]
        names = [r["name"] for r in g]
        for S in ([], [names[0]], [names[2]], [names[11]]):
            for k in (1, 9, 10, 11, 12, 13, 25):
                yield {"g": g, "S": S, "t": "+%d" % k, "st": ["relcur", k]}
                yield {"g": g, "S": S, "t": "%s+%d" % (names[0], k), "st": ["relid", names[0], k]}
                yield {"g": g, "S": S, "t": "%s+%d" % (names[1], k), "st": ["relid", names[1], k]}
                yield {"g": g, "S": S, "t": "lab0@+%d" % k, "st": ["labelrel", "lab0", k]}
    nrand = 250 if tier == "quick" else 10000
    for k in range(nrand):
        g = gr.rand_dag(rnd, rnd.randint(5, 10), pdep=rnd.choice([0.2, 0.4]), pmerge=rnd.choice([0.2, 0.5]),
                        plabel=rnd.choice([0, 0.15]))
        yield {"g": g, "rand_states": rnd.randint(0, 10 ** 9), "rich": True}
    for k in range(40 if tier == "quick" else 1500):
        g = gr.rand_dag(rnd, rnd.randint(3, 8), pdep=rnd.choice([0.2, 0.4]), pmerge=rnd.choice([0.2, 0.5]), plabel=0.1)
        yield {"g": g, "e2e": rnd.randint(0, 10 ** 9)}


def _e2e(h):
    """the whole command: real script files, env.py, command.upgrade on SQLite; the plan is what actually ran"""
    import os, shutil, tempfile
    from alembic import command, util
    from alembic.script import ScriptDirectory
    g = h["g"]
    rnd = random.Random(h["e2e"])
    root = tempfile.mkdtemp(prefix="avc01")
    try:
        cfg, log, db = gr.materialize(g, root)
        names = [r["name"] for r in g]
        for _ in range(rnd.randint(0, 4)):      # reach a state through the real commands
            try:
                kind = rnd.choice(["up", "up", "down", "stamp"])
                if kind == "up":
                    command.upgrade(cfg, rnd.choice(names + ["heads"]))
                elif kind == "down":
                    command.downgrade(cfg, rnd.choice(names + ["base"]))
                else:
                    command.stamp(cfg, rnd.choice(names))
            except util.CommandError:
                pass
        S = gr.db_rows(db)
        sd = ScriptDirectory.from_config(cfg)
        m = sd.revision_map
        # load order of the real directory (os.listdir based) defines the ids
        order = [k for k in m._revision_map if k in names]
        g2 = sorted(g, key=lambda r: order.index(r["name"]))
        ix = gr.index(g2)
        ts = _targets(g2, m, rich=True)
        rnd.shuffle(ts)
        for st, t in ts:
            try:
                tg = [ix[r.revision] for r in m._parse_upgrade_target(current_revisions=tuple(S), target=t, assert_relative_length=True)]
            except Exception:
                continue
            open(log, "w").close()
            try:
                command.upgrade(cfg, t)
            except util.CommandError:
                continue
            ran = [l.split()[1] for l in open(log).read().split("\n") if l.startswith("up ")]
            plan = [ix[x] for x in ran]
            cin = "(%s, %s, %s, %s)" % (gr.coq_graph(g2, m), _coq_tgt(tuple(st), g2), cf.nlist(tg), cf.nlist(ix[s] for s in S))
            return dict(cin=cin, cout="POk %s" % cf.nlist(plan), out={"plan": plan, "targets": tg, "S": S, "t": t, "e2e": True},
                        nontrivial=bool(plan), shape="e2e-n%d" % len(g))
        return None
    finally:
        shutil.rmtree(root, ignore_errors=True)


def search(tier, seed):
    rnd = random.Random(seed * 7 + 99)
    for k in range(3000):
        g = gr.rand_dag(rnd, rnd.randint(3, 7), pdep=0.4, pmerge=0.5, plabel=0.1)
        yield {"g": g, "rand_states": rnd.randint(0, 10 ** 9), "rich": True}


def _one(g, m, sd, S, t, st):
    from alembic import util
    from alembic.script.revision import RevisionError, RangeNotAncestorError, ResolutionError, MultipleHeads
    ix = gr.index(g)
    try:
        tg = m._parse_upgrade_target(current_revisions=tuple(S), target=t, assert_relative_length=True)
        tg = [ix[r.revision] for r in tg]
    except Exception as e:
        return None          # the target does not resolve: outside C01 (see C16)
    try:
        steps = sd._upgrade_revs(t, tuple(S))
        plan = [ix[st.revision.revision] for st in steps]
        out = {"plan": plan}
        cout = "POk %s" % cf.nlist(plan)
    except util.CommandError as e:
        c = e.__cause__
        if isinstance(c, RangeNotAncestorError):
            k = "PERange"
        elif isinstance(c, RevisionError) and "overlaps" in str(c):
            # the only place RevisionError carries this text is the check=True branch of _iterate_related_revisions
            k = "PEOverlap"
        elif isinstance(c, RevisionError):
            k = "PERevision"
        else:
            k = "PEOther"
        out, cout = {"err": k}, "PErr %s" % k
    except AssertionError:
        out, cout = {"err": "PEAssert"}, "PErr PEAssert"
    except Exception as e:
        out, cout = {"err": "PEOther:" + type(e).__name__}, "PErr PEOther"
    cin = "(%s, %s, %s, %s)" % (gr.coq_graph(g, m), _coq_tgt(tuple(st), g), cf.nlist(tg), cf.nlist(ix[s] for s in S))
    return dict(cin=cin, cout=cout, out=dict(out, targets=tg, request=t), nontrivial=bool(out.get("plan")),
                shape="n%d-%s-%s" % (len(g), st[0], "plan" if "plan" in out else out["err"]))


def run_case(h):
    if "cmd" in h or "cmdseq" in h:
        return cs.run_cmd_case(h)
    if "e2e" in h:
        return _e2e(h)
    g = h["g"]
    m, sd = gr.build(g, warm=True)
    if "rand_states" in h:
        rnd = random.Random(h["rand_states"])
        states = gr.reachable_states(rnd, g, sd, 6)
        S = rnd.choice(states)
        ts = _targets(g, m, rich=True)
        rnd.shuffle(ts)
        ts.sort(key=lambda x: x[0][0] in ("ids",))      # prefer the symbolic / relative / labelled forms
        for st, t in ts:
            r = _one(g, m, sd, S, t, st)
            if r is not None:
                r["out"]["S"] = S
                return r
        return None
    return _one(g, m, sd, h["S"], h["t"], h["st"])     # None (skipped) when the target string does not resolve


def classify(human, out):
    return None


def canary(human, rec):
    if "cmd" in human or "cmdseq" in human:
        return cs.canary(human, rec)
    """corrupted plans the decider must reject: a revision dropped, a revision repeated, an error instead of a plan"""
    plan = rec["out"].get("plan")
    if not plan:
        return []
    return ["POk %s" % cf.nlist(plan[:-1]), "POk %s" % cf.nlist(plan + plan[:1]), "PErr PEAssert"] + \
        (["POk %s" % cf.nlist(plan[::-1])] if len(plan) >= 4 and False else [])
