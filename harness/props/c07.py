"""C07 — autogenerate detects every supported kind of model change and nothing unrelated.
Real produce_migrations on SQLite for db(A) vs m(A) over the mutation catalogue vs Model.Diff.diff."""
import random

from harness import coqfmt as cf
from harness import c06_schema as S

PROP = "C07"
COQ = dict(imports=["Model.Schema", "Model.Diff", "Spec.C06", "Spec.C07"], in_ty="c07_in", out_ty="c07_out",
           corr="corr_C07", decide="check_C07", inclass="inclass_C07", model="model_C07")
SUITES = {"seq": dict(imports=["Model.Schema", "Model.Diff", "Spec.C06", "Spec.C07"], in_ty="c07s_in", out_ty="c07_out",
                      corr="corr_C07s", decide="check_C07s", inclass="inclass_C07s", model="model_C07s")}
THEOREMS = ["C07_detects", "C07_nothing_unrelated", "C07_diff_local", "C07_nothing_unrelated_refuted", "C07_decider_sound", "C07_model_holds",
            "C07_seq_nothing_unrelated", "C07_seq_decider_sound"]
TRUSTED = [
    "reflect_sqlite / the type catalogue / the abstraction functions of harness/c06_schema.py, as for C06 "
    "(the C06 check compares the reflection table with really reflected tables on every run)",
    "apply_mut of the harness (apply_mutation) mirrors Spec/C07.v apply_mut; a mismatch shows up as a correspondence disagreement",
]
ASSUME = [
    "base schema A and mutated schema m(A) well formed (names unique in scope, constraints over existing columns, pk columns NOT NULL; "
    "for the tie: no two constraints of a table over the same column set); m applicable to A",
    "catalogue: table added/removed, column added/removed, nullability flipped, type changed to a different token0 family (needs "
    "compare_type), server default added/removed/changed to one that differs after the documented normalisation (needs "
    "compare_server_default), index / named unique constraint added, removed, changed (same name and kind, other columns or unique "
    "flag), foreign key added (new signature) / removed (its signature disappears)",
    "generated (Computed) columns: a nullability change is only claimed when the changed model states nullable explicitly (the "
    "mutation does); a change of / to / from a Computed default is documented as not detected and is not in the catalogue",
    "server defaults of A and m(A) in the class dflt_ok; outside it 'nothing unrelated' is refuted (C07_nothing_unrelated_refuted)",
    "several changes at once (suite seq): a list of catalogue mutations, each applicable where it is applied, pairwise non-interfering "
    "(different objects, none inside another; or different properties of one column; not a foreign key added and another removed on "
    "one table).  For these 'nothing unrelated' is proved for all lists (C07_seq_nothing_unrelated); 'every change detected' is proved "
    "for single changes and checked case by case (decider + exact correspondence) for lists",
    "the comparison must run to completion under every setting: an exception is a missing result, which the decider rejects",
]
RULE = ("ALL ordered pairs of catalogue types of different families as a type change on one indexed column, then seeded random base schemas (every fifth with collations on string columns, every third with generated columns, nullable explicit or unset; default changes include near-misses: other letter case, a surrounding blank, a trailing character) (1-4 tables as for C06) x every kind of the 12-kind mutation catalogue that can be instantiated on "
        "the base (random instance per kind); each case compares db(A) with m(A) under the 4 compare_type x compare_server_default "
        "settings. every case is non-trivial (a real change is applied); distinct by the encoded (A, m). "
        "Every fourth base carries ANONYMOUS unique constraints (Column(unique=True) / unnamed UniqueConstraint, reflected with name None) and gets every index / unique change twice (outside the proved class: judged by decider and exact correspondence). "
        "An include_schemas=True slice: tables of the same name in main and in an ATTACHed database with different indexes, every table-level kind of change on one of the twins; in every second such case the attached schema also holds a table NAMED alembic_version (only in version_table_schema is that name alembic's own), as bystander or as the changed table. "
        "Then lists of 2-7 changes at once on random bases in five shapes: cons_table (2-4 index / unique changes inside one table that carries anonymous unique constraints), same_table (2-5 changes inside one table, half with a removed "
        "column together with at least as many added ones), drop_target (a table removed together with every foreign key pointing at it "
        "from tables that stay, plus up to 2 more changes), add_target (a table added together with a foreign key to it from a table that "
        "was there), mixed")
EXHAUSTIVE = {"quick": False, "thorough": False}
CASE_TIMEOUT = 60
DESIGN_REF = "DESIGN.md section 5 C07"
TECHNIQUE = ("Coq proof that every operation of the transcribed comparators targets an object whose lookup differs between the two "
             "schemas (locality, for all schema pairs) and that each catalogue mutation yields the operation kind on its object; "
             "tied to the code by exact comparison of operation multisets on catalogue x random bases")
LEVEL_TEXT = ("Machine-checked theorems for all well-formed base schemas and all applicable mutations of the catalogue: the modelled "
              "comparison contains the corresponding operation kind on the mutated object and every emitted operation is about an "
              "object the mutation touches; plus a general locality theorem for arbitrary schema pairs. The model is compared "
              "exactly with the real comparison on SQLite on every run.")
LEVEL_NOTE = ("Partial: closed type catalogue, SQLite only, server defaults of class dflt_ok, foreign keys without options.")


def _cases(rnd, nbase):
    for k in range(nbase):
        A = S.gen_schema(rnd)
        if k % 3 == 0:
            S.add_computed(rnd, A, 0.7)        # generated columns (nullable explicit or left unset)
        if k % 2 == 0:
            S.decorate(rnd, A)                 # CHECK constraints / expression indexes: invisible to the comparison
        if k % 5 == 1:
            S.add_collations(random.Random(k), [A])      # string columns with a collation: invisible as well
        anon = k % 4 == 2
        if anon:                               # ANONYMOUS unique constraints (Column(unique=True) / unnamed UniqueConstraint): reflected
            S.add_uuqs(random.Random(k), A)    # with name None; outside the proved class, judged by decider and correspondence
        for kind in S.MUT_KINDS + (["add_cons", "drop_cons", "change_cons", "drop_cons"] if anon else []):
            m = S.gen_mutation(rnd, A, kind)
            if m is not None and anon and S.uuq_clash(S.apply_mutation(A, m)):
                m = None
            if m is not None:
                h = {"A": A, "m": m}
                if k % 4 == 0:                 # ... also when they differ between the database and the changed model
                    h["deco_seed"] = rnd.randrange(1 << 30)
                yield h


def _schema_cases(rnd, nbase):
    """include_schemas=True: tables of the same name in main and in an ATTACHed database (table code = 100 * schema + name), with
    different indexes / constraints; every table-level kind of change on one of the twins (index / unique changes twice), single and
    as a list"""
    import copy
    kinds = S._TABLE_KINDS + ["add_cons", "drop_cons", "change_cons"]
    for k in range(nbase):
        A = S.gen_schema(rnd, 3)
        twins = []
        for t in rnd.sample(A, min(len(A), rnd.choice([1, 1, 2]))):
            code = 100 + t["name"]
            tw = S.gen_table(rnd, code, code * 10)
            for c in tw["cols"]: c[5] = None if (c[5] is not None and c[5][0] == "expr") else c[5]
            while len(tw["cons"]) < 2 and S.add_cons(rnd, tw, code * 10 + 5 + len(tw["cons"])): pass
            twins += [t["name"], code]
            A.append(tw)
        if k % 2 == 1:
            # a bystander in the attached schema that is NAMED like alembic's version table (a leftover of per-schema versioning):
            # only in version_table_schema is that name alembic's own; here it is a table like any other and must stay out of the diff
            vt = S.gen_table(rnd, 100 + S.VT_LOCAL, (100 + S.VT_LOCAL) * 10)
            for c in vt["cols"]: c[5] = None if (c[5] is not None and c[5][0] == "expr") else c[5]
            A.append(vt)
            if k % 4 == 1:
                twins += [100 + S.VT_LOCAL]
        for kind in kinds:
            m = S.gen_mutation(rnd, A, kind, rnd.choice(twins))
            if m is not None:
                yield {"A": A, "m": m, "attached": [1]}
        if k % 2 == 0:
            ms = S.gen_mut_seq(rnd, A, rnd.choice(["cons_table", "same_table", "mixed"]))
            if ms is not None:
                yield {"A": A, "ms": ms, "shape": "schemas", "attached": [1]}


SHAPES = ["same_table", "drop_target", "add_target", "mixed", "cons_table"]


def _seq_cases(rnd, n):
    count = {s: 0 for s in SHAPES}
    tries = 0
    while sum(count.values()) < n and tries < 40 * n:
        tries += 1
        A = S.gen_schema(rnd)
        if tries % 3 == 0:
            S.add_computed(rnd, A, 0.7)
        shape = min(SHAPES, key=lambda s: (count[s], SHAPES.index(s)))      # the shapes in equal numbers
        if shape == "cons_table" or tries % 5 == 0:
            S.add_uuqs(random.Random(tries), A)                             # anonymous unique constraints on the tables
        ms = S.gen_mut_seq(rnd, A, shape)
        if ms is None: continue
        count[shape] += 1
        yield {"A": A, "ms": ms, "shape": shape}


def generate(tier, seed):
    rnd = random.Random(seed * 7919 + 7)
    for A, y in S.type_matrix(False):         # every ordered pair of catalogue types of different (non-synonymous) families
        yield {"A": A, "m": ["change_type", 0, 1, y]}
    yield from _seq_cases(random.Random(seed * 31337 + 7), 400 if tier == "quick" else 4000)
    yield from _cases(rnd, 270 if tier == "quick" else 4000)
    yield from _schema_cases(random.Random(seed * 48611 + 7), 40 if tier == "quick" else 800)


def search(tier, seed):
    rnd = random.Random(seed * 104729 + 7)
    yield from _seq_cases(rnd, 400)
    yield from _cases(rnd, 600)


def run_case(h):
    S.quiet_logs()
    A = h["A"]
    seq = "ms" in h
    B = S.apply_mutations(A, h["ms"]) if seq else S.apply_mutation(A, h["m"])
    if "deco_seed" in h:
        S.decorate(random.Random(h["deco_seed"]), B, 0.7)
    mdB = S.build_metadata(B)
    attached = h.get("attached", [])
    e = S.fresh_db(A, attached)
    outs, qs = [], []
    try:
        with e.connect() as conn:
            for cfg in S.ALL_CFGS:
                try:
                    _, ms = S.compare(conn, mdB, cfg, include_schemas=bool(attached))
                except Exception as ex:          # observable: no result under this setting (the decider wants all four)
                    outs.append({"cfg": list(cfg), "error": type(ex).__name__})
                    continue
                ops = S.abs_ops(ms.upgrade_ops, conn.dialect)
                outs.append({"cfg": list(cfg), "ops": ops})
                qs.append("(%s, %s)" % (S.q_cfg(cfg), S.q_ops(ops)))
    finally:
        e.dispose()
    if seq:
        cin = "(%s, %s)" % (S.q_schema(A), cf.lst(S.q_mut(m) for m in h["ms"]))
        return dict(cin=cin, cout=cf.lst(qs), out=outs, nontrivial=True, shape="seq_" + h["shape"], suite="seq")
    cin = "(%s, %s)" % (S.q_schema(A), S.q_mut(h["m"]))
    return dict(cin=cin, cout=cf.lst(qs), out=outs, nontrivial=True, shape=("schemas_" if attached else "") + h["m"][0])


def canary(human, rec):
    """corrupted observations the decider must reject: the change not reported under the setting that looks for everything,
    an operation on an object nobody touched, one compare setting without a result (as after an exception)"""
    outs = rec.get("out") or []
    if len(outs) != 4 or any("ops" not in o for o in outs):
        return []
    enc = lambda rs: cf.lst("(%s, %s)" % (S.q_cfg(tuple(o["cfg"])), S.q_ops(o["ops"])) for o in rs)
    full = [k for k, o in enumerate(outs) if all(o["cfg"])][0]
    bad = [enc([dict(o, ops=[]) if k == full else o for k, o in enumerate(outs)]),
           enc([dict(o, ops=o["ops"] + [["drop_table", 9999]]) if k == 0 else o for k, o in enumerate(outs)]),
           enc([dict(o, ops=o["ops"] + [["drop_column", 9999, 1]]) if k == 3 else o for k, o in enumerate(outs)]),
           enc(outs[:-1])]
    return bad


def classify(human, out):
    return None
