"""C07 — autogenerate detects every supported kind of model change and nothing unrelated.
Real produce_migrations on SQLite for db(A) vs m(A) over the mutation catalogue vs Model.Diff.diff."""
import random

from harness import coqfmt as cf
from harness import c06_schema as S

PROP = "C07"
COQ = dict(imports=["Model.Schema", "Model.Diff", "Spec.C06", "Spec.C07"], in_ty="c07_in", out_ty="c07_out",
           corr="corr_C07", decide="check_C07", inclass="inclass_C07", model="model_C07")
THEOREMS = ["C07_detects", "C07_nothing_unrelated", "C07_diff_local", "C07_nothing_unrelated_refuted", "C07_decider_sound", "C07_model_holds"]
TRUSTED = [
    "reflect_sqlite / the type catalogue / the abstraction functions of harness/c06_schema.py, as for C06 "
    "(the C06 check compares the reflection table with really reflected tables on every run)",
    "apply_mut of the harness (apply_mutation) mirrors Spec/C07.v apply_mut; a mismatch shows up as a correspondence disagreement",
]
ASSUME = [
    "base schema A and mutated schema m(A) well formed (names unique in scope, constraints over existing columns, pk columns NOT NULL; "
    "for the tie: no two constraints of a table over the same column set); m applicable to A",
    "catalogue: table added/removed, column added/removed, nullability flipped, type changed to a different token0 family (needs "
    "compare_type), server default added/removed/changed to one that differs after the documented normalisation (needs "
    "compare_server_default), index / named unique constraint added, removed, changed (same name and kind, other columns or unique "
    "flag), foreign key added (new signature) / removed (its signature disappears)",
    "generated (Computed) columns: a nullability change is only claimed when the changed model states nullable explicitly (the "
    "mutation does); a change of / to / from a Computed default is documented as not detected and is not in the catalogue",
    "server defaults of A and m(A) in the class dflt_ok; outside it 'nothing unrelated' is refuted (C07_nothing_unrelated_refuted)",
]
RULE = ("ALL ordered pairs of catalogue types of different families as a type change on one indexed column, then seeded random base schemas (every third with generated columns, nullable explicit or unset; default changes include near-misses: other letter case, a surrounding blank, a trailing character) (1-4 tables as for C06) x every kind of the 12-kind mutation catalogue that can be instantiated on "
        "the base (random instance per kind); each case compares db(A) with m(A) under the 4 compare_type x compare_server_default "
        "settings. every case is non-trivial (a real change is applied); distinct by the encoded (A, m)")
EXHAUSTIVE = {"quick": False, "thorough": False}
CASE_TIMEOUT = 60
DESIGN_REF = "DESIGN.md section 5 C07"
TECHNIQUE = ("Coq proof that every operation of the transcribed comparators targets an object whose lookup differs between the two "
             "schemas (locality, for all schema pairs) and that each catalogue mutation yields the operation kind on its object; "
             "tied to the code by exact comparison of operation multisets on catalogue x random bases")
LEVEL_TEXT = ("Machine-checked theorems for all well-formed base schemas and all applicable mutations of the catalogue: the modelled "
              "comparison contains the corresponding operation kind on the mutated object and every emitted operation is about an "
              "object the mutation touches; plus a general locality theorem for arbitrary schema pairs. The model is compared "
              "exactly with the real comparison on SQLite on every run.")
LEVEL_NOTE = ("Partial: closed type catalogue, SQLite only, server defaults of class dflt_ok, foreign keys without options.")


def _cases(rnd, nbase):
    for k in range(nbase):
        A = S.gen_schema(rnd)
        if k % 3 == 0:
            S.add_computed(rnd, A, 0.7)        # generated columns (nullable explicit or left unset)
        if k % 2 == 0:
            S.decorate(rnd, A)                 # CHECK constraints / expression indexes: invisible to the comparison
        for kind in S.MUT_KINDS:
            m = S.gen_mutation(rnd, A, kind)
            if m is not None:
                h = {"A": A, "m": m}
                if k % 4 == 0:                 # ... also when they differ between the database and the changed model
                    h["deco_seed"] = rnd.randrange(1 << 30)
                yield h


def generate(tier, seed):
    rnd = random.Random(seed * 7919 + 7)
    for A, y in S.type_matrix(False):         # every ordered pair of catalogue types of different (non-synonymous) families
        yield {"A": A, "m": ["change_type", 0, 1, y]}
    yield from _cases(rnd, 300 if tier == "quick" else 4000)


def search(tier, seed):
    rnd = random.Random(seed * 104729 + 7)
    yield from _cases(rnd, 600)


def run_case(h):
    S.quiet_logs()
    A, m = h["A"], h["m"]
    B = S.apply_mutation(A, m)
    if "deco_seed" in h:
        S.decorate(random.Random(h["deco_seed"]), B, 0.7)
    mdB = S.build_metadata(B)
    e = S.fresh_db(A)
    outs, qs = [], []
    try:
        with e.connect() as conn:
            for cfg in S.ALL_CFGS:
                _, ms = S.compare(conn, mdB, cfg)
                ops = S.abs_ops(ms.upgrade_ops, conn.dialect)
                outs.append({"cfg": list(cfg), "ops": ops})
                qs.append("(%s, %s)" % (S.q_cfg(cfg), S.q_ops(ops)))
    finally:
        e.dispose()
    cin = "(%s, %s)" % (S.q_schema(A), S.q_mut(m))
    return dict(cin=cin, cout=cf.lst(qs), out=outs, nontrivial=True, shape=m[0])


def classify(human, out):
    return None
