"""C02 — downgrade plan: real ScriptDirectory._downgrade_revs vs Model.Plan.downgrade_plan."""
import random

from harness import coqfmt as cf
from harness import graphs as gr
from harness import cmd_suite as cs

PROP = "C02"
COQ = dict(imports=["Model.Plan", "Spec.C02"], in_ty="input02", out_ty="pres (list N)",
           corr="corr_C02", decide="check_C02", inclass="inclass_C02", model="model_C02")
SUITES = {"cmd": cs.SUITE}
cleanup = cs.cleanup
THEOREMS = ["C02_whole_command_model", "C02_whole_command_decider_sound", "C02_cyclic_history_refused", "C02_model_holds", "C02_plan_exact", "C02_total", "C02_decider_sound", "C02_downgrade_base_removes_all"]
TRUSTED = ["target strings (ids, base, -N, rev-N, label@rev) are resolved by the real _parse_downgrade_target / _resolve_branch and "
           "handed to the model as (target id or base, branch revision): C02 is planner-after-resolution, resolution itself is C16",
           "order oracle: stored order of _normalized_resolved_dependencies observed; theorems hold for every order"]
TRUSTED = TRUSTED + ["suite cmd (whole command): SQLite/SQLAlchemy execute the bookkeeping statements as the list model says; the script files, env.py and alembic.command.downgrade are the real ones; the set-iteration orders of _add_branches and of _normalized_resolved_dependencies are observed from the RevisionMap the command itself built (in-process subclass that records and delegates) and handed to the model as oracles, their CONTENT is recomputed by the model and compared"]
ASSUME = ["history loads (acyclic, references present)", "current rows are revision ids of the history"]
RULE = ("exhaustive: every acyclic history on <=4 revisions, identity (+ sampled reversed) load order, every antichain of revisions "
        "as current rows, targets {each id, base, -1, -2, id-1}; seeded random: histories of 5-10 revisions with rows reached by "
        "random real commands, targets incl. label@id, label@-1, partial ids; plus end-to-end runs (real script files, env.py, command.downgrade on SQLite; plan = order in which downgrade() ran; 40 quick / 1500 thorough). non-trivial = non-empty plan; distinct by encoded case")
RULE = RULE + (" || suite cmd, the whole command end to end (real script directory, env.py, SQLite, alembic.command.downgrade with the target string exactly as typed; observed: which scripts ran in which order, the version table afterwards, the exception class): EVERY acyclic history of <=3 revisions x EVERY antichain version table x every target spelling of a fixed list (ids, partial ids, head(s), base, +N/-N, id+N/id-N, junk, ranges a:b), the same with a branch label on each revision in turn (label@head, label@+N/-N, label@id, label), 40 sampled (thorough: all 729) histories of 4 revisions, seeded random histories of 4-8 revisions with labels, merges and depends_on; compared exactly with Model.Command.run_command and judged by Spec.Command.check_cmd")
EXHAUSTIVE = {"quick": True, "thorough": True}
CASE_TIMEOUT = 10
DESIGN_REF = "DESIGN.md section 5 C02, Appendix A"
TECHNIQUE = ("Coq proof: the same _topological_sort invariant and DFS lemmas as C01 give 'plan = applied descendants of the roots, "
             "each once, children first, never the target or its ancestors; refusal exactly when nothing would be removed and the "
             "database is not at the target'; exact exhaustive small-scope correspondence with the real planner (vm_compute)")
LEVEL_TEXT = ("Machine-checked for all finite acyclic revision graphs, all row sets and all resolved targets: the modelled "
              "_collect_downgrade_revisions + _topological_sort returns exactly descendants(roots) intersected with "
              "ancestors(rows), no repetition, children before parents, never the target or its prerequisites, and raises "
              "RangeNotAncestorError exactly when that set is empty and the target is not a current row. Compared exactly (same "
              "order) with the real _downgrade_revs on every history of up to 4 revisions x every antichain state x targets, "
              "plus seeded random larger histories in states reached through the real commands.")
LEVEL_NOTE = ("Trusted: Coq kernel/vm_compute, the hand model (tied by correspondence), harness encoders; target-string resolution is "
              "observed from the real code (C16), hash-order of normalized dependencies is an observed oracle.")


def _targets(g, rich=False):
    """structured requests with the string alembic is given: [(struct, string)]"""
    names = [r["name"] for r in g]
    labels = [l for r in g for l in r.get("labels", ())]
    ts = [(("id", n), n) for n in names] + [(("base",), "base"), (("relcur", 1), "-1"), (("relcur", 2), "-2")]
    ts += [(("relid", n, 1), n + "-1") for n in names]
    if rich:
        for n in names:
            for k in range(4, len(n)):
                p = n[:k]
                if sum(1 for x in names + labels if x.startswith(p)) == 1:
                    ts.append((("id", n), p))
                    break
        ts += [(("relid", n, 2), n + "-2") for n in names]
        for l in labels:
            ts += [(("other",), l + "@base"), (("other",), l + "@-1")] + [(("labelat", l, n), l + "@" + n) for n in names]
    return ts


def _coq_tgt(struct, g):
    ix = gr.index(g)
    li = gr.label_index(g)
    k = struct[0]
    if k == "id":
        return "(DId %d)" % ix[struct[1]]
    if k == "base":
        return "DBase"
    if k == "relcur":
        return "(DRelCur %d%%nat)" % struct[1]
    if k == "relid":
        return "(DRelId %d %d%%nat)" % (ix[struct[1]], struct[2])
    if k == "labelat":
        return "(DLabelAt %d %d)" % (li[struct[1]], ix[struct[2]])
    return "DOther"


def generate(tier, seed):
    yield from cs.generate(False, tier, seed)      # whole commands, end to end (suite "cmd")
    yield from _generate_plans(tier, seed)


def _generate_plans(tier, seed):
    rnd = random.Random(seed * 1000003 + 2)
    for n in (1, 2, 3, 4):
        for g in gr.acyclic_graphs(n):
            orders = [g, g[::-1]] if n > 1 and (n < 4 or tier == "thorough" or rnd.random() < 0.25) else [g]
            for go in orders:
                for S in gr.antichains(go):
                    for st, t in _targets(go):
                        yield {"g": go, "S": S, "t": t, "st": list(st)}
    # human-readable ids that CONTAIN one another (acct, bill_acct, ...): every acyclic history on <=3 (thorough: 4) revisions
    # with nested names in both nesting directions (a string test where a tuple/set test is meant shows up only here)
    for nested in (("acct", "b_acct", "c_b_acct", "d_c_b_acct"), ("d_c_b_acct", "c_b_acct", "b_acct", "acct")):
        for n in ((2, 3, 4) if tier == "thorough" else (2, 3)):
            for g in gr.acyclic_graphs(n, names=nested):
                for S in gr.antichains(g):
                    for st, t in _targets(g):
                        yield {"g": g, "S": S, "t": t, "st": list(st)}
    for n in (2, 3, 4):          # labelled family: label@id requests on small histories with a label on each revision in turn
        for g in gr.acyclic_graphs(n):
            if n == 4 and tier == "quick" and rnd.random() > 0.1:
                continue
            for li in range(n):
                g2 = [dict(r, labels=(["lab0"] if i == li else [])) for i, r in enumerate(g)]
                for S in gr.antichains(g2):
                    for st, t in _targets(g2, rich=True):
                        if st[0] == "labelat":
                            yield {"g": g2, "S": S, "t": t, "st": list(st)}
    # deep chains: offsets with two digits need a history at least that deep (and over-long offsets must not resolve)
    for width in (1, 3):
        g = [{"name": "r" + str(i).zfill(width), "down": (["r" + str(i - 1).zfill(width)] if i else []), "deps": [], "labels": []}
             for i in range(13)]
        names = [r["name"] for r in g]
        for S in ([names[12]], [names[11]], [names[3]]):
            for k in (1, 9, 10, 11, 12, 13, 25):
                yield {"g": g, "S": S, "t": "-%d" % k, "st": ["relcur", k]}
                yield {"g": g, "S": S, "t": "%s-%d" % (names[12], k), "st": ["relid", names[12], k]}
                yield {"g": g, "S": S, "t": "%s-%d" % (names[11], k), "st": ["relid", names[11], k]}
    nrand = 250 if tier == "quick" else 10000
    for k in range(nrand):
        g = gr.rand_dag(rnd, rnd.randint(5, 10), pdep=rnd.choice([0.2, 0.4]), pmerge=rnd.choice([0.2, 0.5]),
                        plabel=rnd.choice([0, 0.15]))
        yield {"g": g, "rand_states": rnd.randint(0, 10 ** 9)}
    for k in range(40 if tier == "quick" else 1500):
        g = gr.rand_dag(rnd, rnd.randint(3, 8), pdep=rnd.choice([0.2, 0.4]), pmerge=rnd.choice([0.2, 0.5]), plabel=0.1)
        yield {"g": g, "e2e": rnd.randint(0, 10 ** 9)}


def _e2e(h):
    """real script files, env.py, command.downgrade on SQLite; the plan is the order in which downgrade() functions ran"""
    import shutil, tempfile
    from alembic import command, util
    from alembic.script import ScriptDirectory
    g = h["g"]
    rnd = random.Random(h["e2e"])
    root = tempfile.mkdtemp(prefix="avc02")
    try:
        cfg, log, db = gr.materialize(g, root)
        names = [r["name"] for r in g]
        for _ in range(rnd.randint(1, 4)):
            try:
                kind = rnd.choice(["up", "up", "up", "down", "stamp"])
                if kind == "up":
                    command.upgrade(cfg, rnd.choice(names + ["heads", "heads"]))
                elif kind == "down":
                    command.downgrade(cfg, rnd.choice(names + ["base"]))
                else:
                    command.stamp(cfg, rnd.choice(names))
            except util.CommandError:
                pass
        S = gr.db_rows(db)
        sd = ScriptDirectory.from_config(cfg)
        m = sd.revision_map
        order = [k for k in m._revision_map if k in names]
        g2 = sorted(g, key=lambda r: order.index(r["name"]))
        ix = gr.index(g2)
        ts = _targets(g2, rich=True)
        rnd.shuffle(ts)
        for st, t in ts:
            try:
                bl, tr = m._parse_downgrade_target(current_revisions=tuple(S), target=t, assert_relative_length=True)
                target = None if (tr is None or tr == "base") else ix[tr.revision]
                branch = None
                if bl:
                    br = m._resolve_branch(bl)
                    if br is None:
                        continue
                    branch = ix[br.revision]
            except Exception:
                continue
            open(log, "w").close()
            try:
                command.downgrade(cfg, t)
            except util.CommandError:
                continue
            ran = [l.split()[1] for l in open(log).read().split("\n") if l.startswith("down ")]
            plan = [ix[x] for x in ran]
            cin = "(%s, %s, %s, %s, %s)" % (gr.coq_graph(g2, m), _coq_tgt(tuple(st), g2), cf.opt(target), cf.opt(branch), cf.nlist(ix[s] for s in S))
            return dict(cin=cin, cout="POk %s" % cf.nlist(plan), out={"plan": plan, "target": target, "branch": branch, "S": S, "t": t, "e2e": True},
                        nontrivial=bool(plan), shape="e2e-n%d" % len(g))
        return None
    finally:
        shutil.rmtree(root, ignore_errors=True)


def search(tier, seed):
    rnd = random.Random(seed * 7 + 98)
    for k in range(3000):
        g = gr.rand_dag(rnd, rnd.randint(3, 7), pdep=0.4, pmerge=0.5, plabel=0.1)
        yield {"g": g, "rand_states": rnd.randint(0, 10 ** 9)}


def _one(g, m, sd, S, t, st):
    from alembic import util
    from alembic.script.revision import RevisionError, RangeNotAncestorError
    ix = gr.index(g)
    try:
        bl, tr = m._parse_downgrade_target(current_revisions=tuple(S), target=t, assert_relative_length=True)
        target = None if (tr is None or tr == "base") else ix[tr.revision]
        branch = None
        if bl:
            br = m._resolve_branch(bl)
            if br is None:
                return None
            branch = ix[br.revision]
    except Exception:
        return None          # the target does not resolve: outside C02 (see C16)
    try:
        steps = sd._downgrade_revs(t, tuple(S))
        plan = [ix[st.revision.revision] for st in steps]
        out = {"plan": plan}
        cout = "POk %s" % cf.nlist(plan)
    except util.CommandError as e:
        c = e.__cause__
        if isinstance(c, RangeNotAncestorError):
            k = "PERange"
        elif isinstance(c, RevisionError) and "overlaps" in str(c):
            k = "PEOverlap"
        elif isinstance(c, RevisionError):
            k = "PERevision"
        else:
            k = "PEOther"
        out, cout = {"err": k}, "PErr %s" % k
    except AssertionError:
        out, cout = {"err": "PEAssert"}, "PErr PEAssert"
    except Exception as e:
        out, cout = {"err": "PEOther:" + type(e).__name__}, "PErr PEOther"
    cin = "(%s, %s, %s, %s, %s)" % (gr.coq_graph(g, m), _coq_tgt(tuple(st), g), cf.opt(target), cf.opt(branch), cf.nlist(ix[s] for s in S))
    return dict(cin=cin, cout=cout, out=dict(out, target=target, branch=branch, S=S, t=t), nontrivial=bool(out.get("plan")),
                shape="n%d-%s-%s" % (len(g), st[0], "plan" if "plan" in out else out["err"]))


def run_case(h):
    if "cmd" in h or "cmdseq" in h:
        return cs.run_cmd_case(h)
    if "e2e" in h:
        return _e2e(h)
    g = h["g"]
    m, sd = gr.build(g, warm=True)
    if "rand_states" in h:
        rnd = random.Random(h["rand_states"])
        states = gr.reachable_states(rnd, g, sd, 8)
        S = rnd.choice(states[1:] or states)
        ts = _targets(g, rich=True)
        rnd.shuffle(ts)
        ts.sort(key=lambda x: x[0][0] in ("id",))
        for st, t in ts:
            r = _one(g, m, sd, S, t, st)
            if r is not None:
                return r
        return None
    return _one(g, m, sd, h["S"], h["t"], h["st"])


def classify(human, out):
    return None


def canary(human, rec):
    if "cmd" in human:
        return cs.canary(human, rec)
    """corrupted plans the decider must reject: a revision dropped, a revision repeated, an error instead of a plan"""
    plan = rec["out"].get("plan")
    if not plan:
        return []
    return ["POk %s" % cf.nlist(plan[:-1]), "POk %s" % cf.nlist(plan + plan[:1]), "PErr PEAssert"] + \
        (["POk %s" % cf.nlist(plan[::-1])] if len(plan) >= 4 and False else [])
