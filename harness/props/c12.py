"""C12 — offline SQL script vs online run: real command.upgrade/downgrade (sql=True and online) on SQLite
vs Model.OfflineEffect (run_online / run_offline+replay)."""
import datetime
import decimal
import io
import json
import os
import random
import shutil
import sqlite3
import tempfile

from harness import coqfmt as cf

PROP = "C12"
COQ = dict(imports=["Model.OfflineEffect", "Spec.C12"], in_ty="c12_in", out_ty="c12_out",
           corr="corr_C12", decide="check_C12", inclass="inclass_C12", model="model_C12",
           preamble="From Coq Require Import ZArith.")
THEOREMS = ["C12_check_sound", "C12_same_effect", "C12_main", "C12_refuted_tab", "C12_refuted_empty_plan",
            "C12_refuted_empty_version_table", "C12_post_identity", "C12_exec_post_literal", "C12_exec_post_statement",
            "C12_text_read", "C12_same_effect_text", "C12_heads_invariant", "C12_outcome_sim", "C12_abort_same_statement",
            "C12_lit_c_roundtrip"]
TRUSTED = [
    "SQLAlchemy literal rendering (literal_binds) + SQLite's reading of a literal: Section hypothesis "
    "parse_lit (lit v) = v on the values of the plan; the concrete instance lit_c/parse_c is decided per case (inclass) "
    "and the real rendering/parsing is exercised by executing the real script",
    "harness abstraction of a python value to the value SQLite stores for the column type (SQLAlchemy bind processors + "
    "SQLite affinity): validated on every case because the real online database is compared with the model's",
    "the plan (steps and the INSERT/UPDATE/DELETE each step issues on the version table) is an input: it is read from the real "
    "ScriptDirectory._upgrade_revs/_downgrade_revs and the real HeadMaintainer.update_to_step (their correctness is C01-C03)",
    "SQLite semantics of CREATE/DROP TABLE, ADD COLUMN, CREATE/DROP (UNIQUE) INDEX, INSERT, DELETE, UPDATE with column defaults, "
    "NOT NULL, PRIMARY KEY / UNIQUE sets (modelled, validated by the run incl. the statement at which a violation stops it)",
    "transaction behaviour of the sqlite3 driver (DML opens the transaction, DDL before it is permanent, commit per migration step or "
    "once at the end depending on transactional_ddl / transaction_per_migration, rollback on error) and of an autocommit connection "
    "executing the script's BEGIN / COMMIT (nested BEGIN and unmatched COMMIT are errors, close after an error rolls back): "
    "modelled (o_snap / rolled_back / exec_tx) and validated on every failing case by comparing both real databases after the error "
    "with the model's",
    "C12_same_effect_text / C12_text_read: SQLAlchemy's compiler output has the token structure blanks-tokens-blanks (render_wf) "
    "and SQLite reads a statement text token-wise (sqlite_reads): Section hypotheses, satisfiable (C12_text_nonvacuous), exercised "
    "by executing the real script; SQLAlchemy's text() on op.execute strings: Section variable untext",
]
ASSUME = [
    "no literal of the plan contains a tab character (no_tab_in_literals) — otherwise C12_refuted_tab",
    "the starting database is at `start`: version rows = start, and NO version table when start is base "
    "(an empty version table at base makes the offline CREATE TABLE fail; outside the statement)",
    "version heads are non-empty between two steps and the plan is not empty when starting from base (true of real plans)",
    "SQLite only; a primary key is never a lone INTEGER column (that would be the rowid); uniqueness compares stored values "
    "structurally (the generator keeps one representation per column)",
    "when a statement fails the property claims only that the other side fails too (proved: after exactly the same statements, "
    "C12_abort_same_statement); the leftovers differ by the rolled-back transaction and are modelled, not claimed equal",
    "`start` is base or one revision: multi-head starts (a+b:..., a,b:..., heads:... with two heads) are rejected by alembic "
    "with CommandError (probed on every run: evidence key multi_head_start_rejected)",
]
RULE = ("quick 700 / thorough 10000 cases.  seeded generation: histories of 1-6 revisions (linear, branched, merges, several bases, depends_on), upgrade ranges "
        "start:end (start = base or a revision, end = revision/head(s)/+N) and downgrade ranges from:to (to = base, ancestor, -N), "
        "the start spelled as full id / unique 4-character prefix / branch label / `head` (single-head histories) / base, "
        "each under one point of the lattice transactional_ddl {default, True, False} x transaction_per_migration {False, True} "
        "configured in env.py for BOTH the online run and the offline script (replayed on an autocommit sqlite3 connection, so the "
        "script's own BEGIN / COMMIT frame it); "
        "bodies over create_table/drop_table/add_column/create_index/drop_index/bulk_insert/execute (columns with and without "
        "server defaults; bulk rows with explicit None, with omitted keys, and ragged key sets under multiinsert=False; execute "
        "literals with colons and backslash-colon escapes) with values from "
        "{quotes, backslashes, NULL, unicode, ints, big ints, decimals, floats, dates, datetimes, booleans, ';', newlines, "
        "%(x)s, :name, ?}; tables with NOT NULL columns, PRIMARY KEY / UNIQUE column sets, unique indexes (key columns get fresh "
        "values); ~5% bodies with an inapplicable statement and ~15% with an injected constraint violation (repeated key, NULL into "
        "NOT NULL, colliding UPDATE, NOT NULL column without default) — on those both leftovers are compared with the model.  non-trivial = at least one step ran and at least one row "
        "was inserted; distinct by the encoded input")
EXHAUSTIVE = {"quick": False, "thorough": False}
CASE_TIMEOUT = 60
DESIGN_REF = "DESIGN.md section 5 C12"
TECHNIQUE = ("Coq proof by induction on the plan (invariant: offline HeadMaintainer.heads = online version rows, user tables equal) "
             "that replaying the modelled offline statement stream equals the modelled online run, tied to the code by executing "
             "the real offline script and the real online command on copies of one SQLite database and comparing both with the model")
LEVEL_TEXT = ("Machine-checked: for every starting database, every plan (steps with bodies over the op alphabet and their "
              "version-table bookkeeping) whose literals contain no tab and round-trip through literal rendering, executing the "
              "offline statement stream statement by statement has exactly the observable effect of the online run (tables, "
              "columns, rows, indexes, version rows); refuted with a witness when a literal contains a tab (DefaultImpl._exec "
              "replaces tabs inside string literals).")
LEVEL_NOTE = ("Partial: literal rendering, the compiler's token structure and SQLite's reading are hypotheses validated by the run, not "
              "proved; the plan is an input (C01-C03); SQLite only; an absent and an empty version table are identified; after a "
              "failing statement only 'both fail, at the same statement' is claimed.")

FINDING_TAB = "C12-tab-in-literal"
VERIF = os.path.dirname(os.path.dirname(os.path.dirname(os.path.abspath(__file__))))

# ----------------------------------------------------------------------------- types and values
TYPES = ["sa.Integer()", "sa.String(50)", "sa.Text()", "sa.Numeric(10, 2)", "sa.Float()", "sa.Boolean()", "sa.Date()",
         "sa.DateTime()", "sa.BigInteger()"]
PRAGMA_TYPES = ["INTEGER", "VARCHAR(50)", "TEXT", "NUMERIC(10, 2)", "FLOAT", "BOOLEAN", "DATE", "DATETIME", "BIGINT"]
T_INT, T_STR, T_TEXT, T_NUM, T_FLOAT, T_BOOL, T_DATE, T_DT, T_BIG = range(9)

STRINGS = ["it's", "''", "'", 'dq"uote', "back\\slash", "\\'", "unié中\U0001F600", "", " lead", "trail ", "semi;colon",
           "new\nline", "cr\rlf", "%(x)s", ":name", "?", "100%", "a;\nb", "--c", "/*x*/", "NULL", "1", " sep", "\x0bvt",
           "x" * 40, " nbsp", "q''q", "\\\\", "$1", "{}", "a b  c"]
TAB_STRINGS = ["tab\there", "\t", "a\t'b", "\t\tx "]


def gen_value(rnd, ty, tabs=False):
    """a python value as JSON: None | ['i',int] | ['s',str] | ['f',repr] | ['d',str] | ['date',iso] | ['dt',iso] | ['b',bool]"""
    if rnd.random() < 0.12:
        return None
    if ty == T_INT:
        return ["i", rnd.choice([0, 1, -1, 7, 42, -300, 2 ** 31 - 1, -2 ** 31, rnd.randint(-10 ** 6, 10 ** 6)])]
    if ty == T_BIG:
        return ["i", rnd.choice([2 ** 62, -2 ** 62, 2 ** 63 - 1, -2 ** 63, 0, 5, rnd.randint(-10 ** 18, 10 ** 18)])]
    if ty in (T_STR, T_TEXT):
        if tabs and rnd.random() < 0.5:
            return ["s", rnd.choice(TAB_STRINGS)]
        s = rnd.choice(STRINGS)
        if rnd.random() < 0.3:
            s = s + rnd.choice(STRINGS)
        return ["s", s[:50]]
    if ty == T_NUM:
        return ["d", rnd.choice(["1.50", "-0.01", "12345678.99", "0", "2.00", "3", "0.10", "-7.25",
                                 "%d.%02d" % (rnd.randint(-9999, 9999), rnd.randint(0, 99))])]
    if ty == T_FLOAT:
        return ["f", repr(rnd.choice([0.1, 1.5, -2.25, 3.0, 1e300, 1e-05, -0.0, 0.0, 123456.0, 2.5e-10,
                                      float("%d.%03d" % (rnd.randint(-999, 999), rnd.randint(0, 999)))]))]
    if ty == T_BOOL:
        return ["b", rnd.random() < 0.5]
    if ty == T_DATE:
        return ["date", rnd.choice(["2020-01-02", "0001-01-01", "9999-12-31", "2000-02-29",
                                    "%04d-%02d-%02d" % (rnd.randint(1900, 2100), rnd.randint(1, 12), rnd.randint(1, 28))])]
    if ty == T_DT:
        return ["dt", rnd.choice(["2020-01-02T03:04:05.000678", "9999-12-31T23:59:59", "2000-02-29T00:00:00",
                                  "%04d-%02d-%02dT%02d:%02d:%02d" % (rnd.randint(1900, 2100), rnd.randint(1, 12), rnd.randint(1, 28),
                                                                       rnd.randint(0, 23), rnd.randint(0, 59), rnd.randint(0, 59))])]
    raise AssertionError(ty)


def py_value(v):
    if v is None:
        return None
    k, x = v
    if k in ("i", "s", "b"):
        return x
    if k == "f":
        return float(x)
    if k == "d":
        return decimal.Decimal(x)
    if k == "date":
        return datetime.date.fromisoformat(x)
    if k == "dt":
        return datetime.datetime.fromisoformat(x)
    raise AssertionError(v)


def py_src(v):
    """python source text of the value, as it is written into the revision file"""
    if v is None:
        return "None"
    k, x = v
    if k == "d":
        return "decimal.Decimal(%r)" % x
    if k == "f":
        return "float(%r)" % x
    return repr(py_value(v))


def stored(v):
    """the value SQLite ends up storing (SQLAlchemy bind processing + column affinity), as a model value"""
    if v is None:
        return ("null",)
    k, x = v
    if k == "i":
        return ("int", x)
    if k == "b":
        return ("int", 1 if x else 0)
    if k == "s":
        return ("text", x)
    if k == "f":
        return ("num", repr(float(x) + 0.0))     # SQLite does not keep the sign of a zero
    if k == "d":
        f = float(decimal.Decimal(x))
        if f == int(f) and abs(f) < 2 ** 63:
            return ("int", int(f))       # NUMERIC affinity stores an integral real as an integer
        return ("num", repr(f))
    if k == "date":
        return ("text", x)
    if k == "dt":
        return ("text", datetime.datetime.fromisoformat(x).strftime("%Y-%m-%d %H:%M:%S.%f"))
    raise AssertionError(v)


def sql_lit(v):
    """canonical literal text for the value SQLite stores: written into op.execute("...") strings and (for numbers)
    into server_default=sa.text(...)"""
    m = stored(v)
    if m[0] == "null":
        return "NULL"
    if m[0] == "int":
        return str(m[1])
    if m[0] == "num":
        return m[1]
    return "'" + m[1].replace("'", "''") + "'"


# literal texts of op.execute strings for string columns, as the user writes them: text() turns "\\:" into ":";
# a colon that would read as a bind parameter (":name" after a non-word character) is never left unescaped
EXEC_TEXTS = ["'12:30'", "'at \\:noon'", "'\\:x y'", "'a\\:b'", "'back\\slash'", "'it''s'", "'\\\\:z'", "'x\\:1:2'", "'semi;colon'",
              "'new\nline'", "'uni\u00e9\u4e2d'", "''", "' a: b'", "'q'':'", "'?'", "'\\:'", "'10:20:30'", "'\\:a\\:b'", "'$\\:v'", "NULL",
              "'dq\"uote'", "' lead'", "'--c'", "'/*x*/'"]


def parse_sql_lit(t):
    """a DEFAULT literal as PRAGMA table_info reports it -> model value"""
    import re
    if t.startswith("'") and t.endswith("'") and len(t) >= 2:
        return ("text", t[1:-1].replace("''", "'"))
    if t == "NULL":
        return ("null",)
    if re.fullmatch(r"-?[0-9]+", t):
        return ("int", int(t))
    return ("num", t)


def db_value(x):
    if x is None:
        return ("null",)
    if isinstance(x, bool):
        raise AssertionError(x)
    if isinstance(x, int):
        return ("int", x)
    if isinstance(x, float):
        return ("num", repr(x))
    if isinstance(x, str):
        return ("text", x)
    raise AssertionError("unexpected cell %r" % (x,))


def coq_value(m):
    if m[0] == "null":
        return "VNull"
    if m[0] == "int":
        return "(VInt (%d)%%Z)" % m[1]
    if m[0] == "text":
        return "(VText %s)" % cf.string(m[1])
    if m[0] == "num":
        return "(VNum %s)" % cf.string(m[1])
    raise AssertionError(m)


# ----------------------------------------------------------------------------- generator
def exec_ok_string(s):
    # text() treats :name as a bind parameter and "\:" as an escape — SQLAlchemy's syntax, not part of the statement
    return ":" not in s and "\\" not in s and "%" not in s


def gen_history(rnd, tier, tabs=False, invalid=False, violate=False):
    n = rnd.choice([1, 2, 3, 3, 4, 4, 5, 5, 6, 6])
    shape = rnd.choice(["linear", "linear", "dag", "dag", "dag"])
    revs = []
    ctr = {"c": 0, "ix": 0, "t": 0, "k": 0}
    keyc = set()             # columns that belong to a PRIMARY KEY / UNIQUE set: their values are fresh, never repeated
    tabinfo = {}             # table -> its column list (live)

    def fresh_value(ty):
        m = ctr["k"]
        ctr["k"] += 1
        if ty == T_INT:
            return ["i", 1000 + m]
        if ty == T_BIG:
            return ["i", 10 ** 12 + m]
        if ty in (T_STR, T_TEXT):
            return ["s", "k%d_" % m + rnd.choice(["", "it's", "\u00e9", "a b", "''"])]
        if ty == T_NUM:
            return ["d", "%d.25" % (m + 1)]
        if ty == T_FLOAT:
            return ["f", repr(m + 0.5)]
        if ty == T_DATE:
            return ["date", datetime.date.fromordinal(700000 + m).isoformat()]
        if ty == T_DT:
            return ["dt", (datetime.datetime(2000, 1, 1) + datetime.timedelta(seconds=m)).isoformat()]
        raise AssertionError(ty)
    anc = {}                 # id -> set of ancestor ids (via down and deps)
    surviving = {}           # id -> list of (table, [(col,ty)]) created by that revision and not dropped by it
    for k in range(n):
        if shape == "linear":
            down = [k - 1] if k else []
            deps = []
        else:
            cand = list(range(k))
            r = rnd.random()
            if not cand or r < 0.15:
                down = []
            elif r < 0.75 or len(cand) < 2:
                down = [rnd.choice(cand)]
            else:
                down = sorted(rnd.sample(cand, 2))
            deps = []
            rest = [c for c in cand if c not in down]
            if rest and rnd.random() < 0.12:
                deps = [rnd.choice(rest)]
        a = set()
        for p in down + deps:
            a |= {p} | anc[p]
        anc[k] = a
        up, dn = [], []
        own = []             # own tables: [name, cols(list of [c,ty]), alive]
        own_ix = []
        anc_tabs = [tc for p in sorted(a) for tc in surviving[p]]

        def new_cols(m, addcol=False):
            out = []
            for _ in range(m):
                ty = rnd.randrange(len(TYPES))
                dflt = None
                if rnd.random() < 0.4:
                    while dflt is None or (dflt[0] == "s" and ("%" in dflt[1])):
                        dflt = gen_value(rnd, ty, tabs)
                notnull = rnd.random() < 0.2 and (not addcol or dflt is not None)
                out.append([ctr["c"], ty, dflt, notnull])
                ctr["c"] += 1
            return out

        def constrain(cols):
            """PRIMARY KEY / UNIQUE column sets for a new table; the columns become key columns"""
            uniq = []
            cand = [c for c in cols if c[1] != T_BOOL]
            if not cand or rnd.random() < 0.45:
                return uniq
            kinds = rnd.choice([["pk"], ["u"], ["pk", "u"], ["u", "u"]])
            for kind in kinds:
                if not cand:
                    break
                us = rnd.sample(cand, rnd.randint(1, min(2, len(cand))))
                if kind == "pk":
                    if len(us) == 1 and us[0][1] == T_INT:
                        us[0][1] = T_BIG          # a lone INTEGER PRIMARY KEY would be the rowid (auto-assigned on NULL)
                    for c in us:
                        c[3] = True               # SQLAlchemy renders primary key columns NOT NULL
                cand = [c for c in cand if c not in us]
                for c in us:
                    c[2] = None
                    keyc.add(c[0])
                uniq.append({"cols": [c[0] for c in us], "pk": kind == "pk"})
            return uniq

        def rows_for(cols, execonly=False):
            # a NOT NULL column without default must be given
            keys = [c for c in cols if rnd.random() < 0.85 or (c[3] and c[2] is None)] or cols[:1]
            rows = []
            # ragged: the row dicts do not all carry the same keys (a later row omits a column an earlier one gave);
            # such a list is inserted with multiinsert=False (online executemany needs one key set)
            ragged = (not execonly) and len(keys) > 1 and rnd.random() < 0.4
            for _ in range(rnd.choice([0, 1, 1, 2, 3, 5] if not ragged else [2, 3, 4, 5]) if not execonly else 1):
                row = {}
                rkeys = keys
                if ragged and rows:
                    rkeys = [c for c in keys if rnd.random() < 0.6 or (c[3] and c[2] is None)] or [rnd.choice(keys)]
                for c, ty, dflt, notnull in rkeys:
                    if c in keyc:
                        v = fresh_value(ty)
                        if not notnull and rnd.random() < 0.1:
                            v = None                       # NULL never conflicts
                        if execonly:
                            v = sql_lit(v)
                    elif execonly:
                        if ty in (T_STR, T_TEXT):
                            v = rnd.choice(EXEC_TEXTS)
                            if tabs and rnd.random() < 0.4:
                                v = "'tab\there'"
                        else:
                            v = sql_lit(gen_value(rnd, ty))
                        while notnull and v == "NULL":
                            v = rnd.choice(EXEC_TEXTS) if ty in (T_STR, T_TEXT) else sql_lit(gen_value(rnd, ty))
                    else:
                        v = gen_value(rnd, ty, tabs)
                        if dflt is not None and rnd.random() < 0.35:
                            v = None           # explicit None for a column that has a server default
                        while notnull and v is None:
                            v = gen_value(rnd, ty, tabs)
                    row[str(c)] = v
                rows.append(row)
            multi = False if len(set(tuple(sorted(r)) for r in rows)) > 1 else (rnd.random() < 0.7)
            return keys, rows, multi

        for _ in range(rnd.choice([1, 1, 2])):
            t = ctr["t"]
            ctr["t"] += 1
            cols = new_cols(rnd.randint(1, 4))
            uniq = constrain(cols)
            up.append(["ct", t, [list(c) for c in cols], uniq])
            own.append([t, cols, True])
            tabinfo[t] = cols
        nops = rnd.randint(1, 5)
        for _ in range(nops):
            targets = [(o[0], o[1]) for o in own if o[2]] + anc_tabs
            if not targets:
                break
            t, cols = rnd.choice(targets)
            r = rnd.random()
            if r < 0.40:
                keys, rows, multi = rows_for(cols)
                up.append(["bi", t, [[c[0], c[1]] for c in keys], rows, multi])
            elif r < 0.55:
                c = new_cols(1, addcol=True)[0]
                up.append(["ac", t, c])
                for o in own:
                    if o[0] == t:
                        o[1].append(c)
            elif r < 0.72:
                kc = [c for c in cols if c[0] in keyc]
                unique = bool(kc) and rnd.random() < 0.5
                ic = rnd.sample(kc, rnd.randint(1, min(2, len(kc)))) if unique else rnd.sample(cols, rnd.randint(1, min(2, len(cols))))
                ix = ctr["ix"]
                ctr["ix"] += 1
                up.append(["ci", ix, t, [c[0] for c in ic], unique])
                own_ix.append([ix, t])
            elif r < 0.84:
                keys, rows, _multi = rows_for(cols, execonly=True)
                if rnd.random() < 0.6:
                    up.append(["xi", t, rows[0]])
                elif rnd.random() < 0.7 and [c for c in keys if c[0] not in keyc]:
                    c = [c for c in keys if c[0] not in keyc][0][0]      # setting a key column of every row would collide
                    up.append(["xu", t, c, rows[0][str(c)]])
                else:
                    up.append(["xd", t])
            elif r < 0.92 and own_ix:
                ix, it = own_ix.pop(rnd.randrange(len(own_ix)))
                up.append(["di", ix])
            elif len([o for o in own if o[2]]) > 1:
                o = rnd.choice([o for o in own if o[2]])
                o[2] = False
                own_ix = [x for x in own_ix if x[1] != o[0]]
                up.append(["dt", o[0]])
        surviving[k] = [(o[0], list(o[1])) for o in own if o[2]]
        # downgrade body: data ops on ancestors' tables, then undo own objects
        if anc_tabs and rnd.random() < 0.5:
            t, cols = rnd.choice(anc_tabs)
            if rnd.random() < 0.6:
                keys, rows, multi = rows_for(cols)
                dn.append(["bi", t, [[c[0], c[1]] for c in keys], rows, multi])
            else:
                dn.append(["xd", t])
        for ix, it in own_ix:
            if rnd.random() < 0.7:
                dn.append(["di", ix])
        for o in own:
            if o[2]:
                dn.append(["dt", o[0]])
        labels = ["lbl%d_x" % k] if rnd.random() < 0.35 else []
        revs.append({"id": k, "down": down, "deps": deps, "up": up, "dn": dn, "labels": labels})
    # command and range
    ids = list(range(n))
    if rnd.random() < 0.6:
        cmd = "upgrade"
        start = None if rnd.random() < 0.5 else rnd.choice(ids)
        r = rnd.random()
        if r < 0.35:
            end = "heads"
        elif r < 0.45:
            end = "+%d" % rnd.randint(1, 2)
        else:
            end = rnd.choice(ids)
            if start is not None and rnd.random() < 0.7:
                desc = [x for x in ids if start in anc[x]]
                if desc:
                    end = rnd.choice(desc)
    else:
        cmd = "downgrade"
        start = rnd.choice(ids)
        r = rnd.random()
        if r < 0.4:
            end = "base"
        elif r < 0.5:
            end = "-%d" % rnd.randint(1, 2)
        else:
            a = sorted(anc[start])
            end = rnd.choice(a) if a else "base"
    if invalid:
        # an inapplicable statement somewhere in the bodies the command will run (the starting database must still build)
        if cmd == "upgrade":
            start = None
        for r in revs:
            if rnd.random() < 0.5:
                body = r["up"] if cmd == "upgrade" else r["dn"]
                kind = rnd.randrange(4)
                own_t = [o[1] for o in r["up"] if o[0] == "ct"]
                if kind == 0 and own_t:
                    body.insert(rnd.randint(0, len(body)), ["ct", own_t[0], [[10 ** 6, 0, None, False]], []])   # maybe existing
                elif kind == 1:
                    body.insert(rnd.randint(0, len(body)), ["di", 10 ** 6])                           # no such index
                elif kind == 2:
                    body.insert(rnd.randint(0, len(body)), ["bi", 10 ** 6, [[0, 0]], [{"0": ["i", 1]}]])  # no such table
                else:
                    body.append(["dt", 10 ** 6])
    if violate:
        # a constraint violation in a body the command will run: a repeated key, a NULL in a NOT NULL column, a NOT NULL
        # column added without default, a unique index over repeated values, an UPDATE that makes keys collide
        if cmd == "upgrade":
            start = None
        done = False
        for r in rnd.sample(revs, len(revs)):
            body = r["up"] if cmd == "upgrade" else r["dn"]
            for o in rnd.sample(body, len(body)):
                if o[0] != "bi" or not o[3] or o[1] not in tabinfo:
                    continue
                cols = {c[0]: c for c in tabinfo[o[1]]}
                kcs = [c for c, _ in o[2] if c in keyc and o[3][0].get(str(c)) is not None]
                nns = [c for c, _ in o[2] if cols[c][3]]
                kind = rnd.randrange(3)
                if kind == 0 and kcs:
                    o[3].append(dict(o[3][0]))                      # the first row again: repeated key
                elif kind == 1 and nns:
                    rnd.choice(o[3])[str(rnd.choice(nns))] = None   # NULL into NOT NULL
                elif kcs and len(o[3]) >= 1:
                    body.insert(body.index(o) + 1, ["xu", o[1], kcs[0], sql_lit(o[3][0][str(kcs[0])])])
                    if len(o[3]) < 2:
                        o[3].append({k2: (fresh_value(cols[int(k2)][1]) if int(k2) in keyc else v2) for k2, v2 in o[3][0].items()})
                else:
                    continue
                done = True
                break
            if done:
                break
        if not done:
            r = rnd.choice(revs)
            body = r["up"] if cmd == "upgrade" else r["dn"]
            own_t = [o for o in r["up"] if o[0] == "ct"]
            if own_t and cmd == "upgrade":
                body.append(["ac", own_t[0][1], [10 ** 6 + 1, T_INT, None, True]])   # NOT NULL column without default
    raw_pool = [chr(c) for c in (9, 9, 32, 32, 10, 13, 11, 12, 28, 31, 0x85, 0xa0, 0x1680, 0x2000, 0x200a, 0x2028, 0x2029,
                                 0x202f, 0x205f, 0x3000, 0x200b, 0x180e, 0xfeff, 8, 14, 27, 33, 0x84, 0x86, 0x9f, 0xa1,
                                 0x2010, 0x200c, 0x3001)] + list("aB'(),=x1") + ["\u00e9"]
    raw = "".join(rnd.choice(raw_pool) for _ in range(rnd.randint(0, 14)))
    # how the start of the --sql range is spelled: every spelling get_current_heads accepts offline
    if start is None:
        start_sp = {"kind": "base", "text": "base"}
    else:
        heads = [r["id"] for r in revs if not any(r["id"] in c["down"] for c in revs)]
        opts = [{"kind": "id", "text": rname(start)}, {"kind": "prefix", "text": rname(start)[:4]}]
        if revs[start]["labels"]:
            opts += [{"kind": "label", "text": revs[start]["labels"][0]}] * 2
        if heads == [start]:
            opts += [{"kind": "head", "text": "head"}] * 2
        start_sp = rnd.choice(opts)
    # the configuration lattice of the migration context, the same for the online run and the offline script
    cfg = {"tddl": rnd.choice([None, None, True, True, True, False]), "tpm": rnd.random() < 0.4}
    return {"revs": revs, "cmd": cmd, "start": start, "end": end, "raw": raw, "tabs": bool(tabs), "cfg": cfg, "start_sp": start_sp}


def _registered(fid):
    try:
        doc = json.load(open(os.path.join(VERIF, "known_findings.json")))
        return any(f.get("id") == fid and f.get("property") == PROP for f in doc.get("findings", []))
    except Exception:
        return False


WITNESS_TAB = {"revs": [{"id": 0, "down": [], "deps": [], "up": [["ct", 0, [[0, T_TEXT, None, False]], []], ["bi", 0, [[0, T_TEXT]], [{"0": ["s", "tab\there"]}]]],
                         "dn": [["dt", 0]]}], "cmd": "upgrade", "start": None, "end": "heads", "raw": "", "tabs": True}
_ONE = [{"id": 0, "down": [], "deps": [], "up": [["ct", 0, [[0, T_INT, None, False]], []], ["bi", 0, [[0, T_INT]], [{"0": ["i", 1]}]]], "dn": [["dt", 0]]}]
# `upgrade base:base --sql` emits a lone DROP TABLE alembic_version
WITNESS_EMPTY_PLAN = {"revs": _ONE, "cmd": "upgrade", "start": None, "end": "base", "raw": "", "tabs": False}
# a database at base that still has its (empty) version table: the offline CREATE TABLE alembic_version fails
WITNESS_EMPTY_VT = {"revs": _ONE, "cmd": "upgrade", "start": None, "end": "heads", "raw": "", "tabs": False, "empty_vt": True}
FINDING_EMPTY_PLAN = "C12-empty-plan-at-base"
FINDING_EMPTY_VT = "C12-empty-version-table-at-base"


def generate(tier, seed):
    rnd = random.Random(seed * 7919 + 12)
    n = 700 if tier == "quick" else 10000
    # str.strip() / replace("\t") on the raw statement: every code point for which str.isspace() holds, its neighbours,
    # and a few others, each at both ends of a statement and in the middle (deterministic, carried by the first cases)
    ws = [9, 10, 11, 12, 13, 28, 29, 30, 31, 32, 0x85, 0xa0, 0x1680, 0x2028, 0x2029, 0x202f, 0x205f, 0x3000] + list(range(0x2000, 0x200b))
    pts = sorted(set(c + d for c in ws for d in (-1, 0, 1)) | {0x180e, 0xfeff, 0x200b, 0x200c, 0x2060, 0x1d, 0x7f, 0x1c})
    pts = [c for c in pts if c > 0]
    specials = [chr(c) + "a" + chr(c) + "b" + chr(c) for c in pts] + [chr(c) for c in ws[:6]] + ["", "\t\t", " \t x\t'\t' \t"]
    for k in range(n):
        h = gen_history(rnd, tier, tabs=False, invalid=(k % 20 == 7), violate=(k % 20 in (3, 11, 16)))
        if k < len(specials):
            h["raw"] = specials[k]
        yield h
    # the known deviations (DESIGN section 6): generated only once they are recorded in known_findings.json (or when
    # C12_WITH_FINDINGS=1), so that they print KNOWN-FINDING; the decider is at full strength on them
    force = os.environ.get("C12_WITH_FINDINGS") == "1"
    if force or _registered(FINDING_TAB):
        yield WITNESS_TAB
        for k in range(40 if tier == "quick" else 400):
            yield gen_history(rnd, tier, tabs=True)
    if force or _registered(FINDING_EMPTY_PLAN):
        yield WITNESS_EMPTY_PLAN
    if force or _registered(FINDING_EMPTY_VT):
        yield WITNESS_EMPTY_VT


def search(tier, seed):
    rnd = random.Random(seed * 104729 + 12)
    for k in range(1500):
        yield gen_history(rnd, tier, tabs=False, invalid=(k % 10 == 0), violate=(k % 10 == 5))


def classify(human, out):
    if human.get("empty_vt") and human["start"] is None:
        return FINDING_EMPTY_VT
    if human["start"] is None and human["cmd"] == "upgrade" and out and out.get("plan") == [] and not out.get("plan_error"):
        return FINDING_EMPTY_PLAN
    def has_tab(v):
        return v is not None and v[0] == "s" and "\t" in v[1]
    for r in human["revs"]:
        for o in r["up"] + r["dn"]:
            if o[0] == "bi" and any(has_tab(v) for row in o[3] for v in row.values()):
                return FINDING_TAB
            if o[0] == "xi" and any("\t" in w for w in o[2].values()):
                return FINDING_TAB
            if o[0] == "xu" and "\t" in o[3]:
                return FINDING_TAB
            if o[0] == "ct" and any(has_tab(c[2]) for c in o[2]):
                return FINDING_TAB
            if o[0] == "ac" and has_tab(o[2][2]):
                return FINDING_TAB
    return None


# ----------------------------------------------------------------------------- driving the real code
ENV_PY = '''
from alembic import context
from sqlalchemy import create_engine, pool
config = context.config

TDDL = {"default": None, "true": True, "false": False}[config.get_main_option("av_tddl") or "default"]
TPM = (config.get_main_option("av_tpm") or "false") == "true"

def run_migrations_offline():
    context.configure(url=config.get_main_option("sqlalchemy.url"), target_metadata=None, literal_binds=True,
                      dialect_opts={"paramstyle": "named"}, transactional_ddl=TDDL, transaction_per_migration=TPM)
    with context.begin_transaction():
        context.run_migrations()

def run_migrations_online():
    connectable = create_engine(config.get_main_option("sqlalchemy.url"), poolclass=pool.NullPool)
    with connectable.connect() as connection:
        context.configure(connection=connection, target_metadata=None, transactional_ddl=TDDL, transaction_per_migration=TPM)
        with context.begin_transaction():
            context.run_migrations()

if context.is_offline_mode():
    run_migrations_offline()
else:
    run_migrations_online()
'''


def tname(t):
    return "t%d" % t


def cname(c):
    return "c%d" % c


def iname(i):
    return "ix%d" % i


# revision ids: long enough for abbreviated lookups (a unique prefix of >= 4 characters), two of them sharing 3 characters
NAMES = ["a1b2c3", "a1b9d4", "b7c8d9", "c0ffee1", "d00d42", "e5e5e5"]


def rname(r):
    return NAMES[r]


def col_src(c):
    cid, ty, dflt, notnull = c
    nn = ", nullable=False" if notnull else ""
    if dflt is None:
        return "sa.Column(%r, %s%s)" % (cname(cid), TYPES[ty], nn)
    if dflt[0] in ("s", "date", "dt"):
        return "sa.Column(%r, %s, server_default=%r%s)" % (cname(cid), TYPES[ty], stored(dflt)[1], nn)
    return "sa.Column(%r, %s, server_default=sa.text(%r)%s)" % (cname(cid), TYPES[ty], sql_lit(dflt), nn)


def uniq_src(u):
    return "sa.%s(%s)" % ("PrimaryKeyConstraint" if u["pk"] else "UniqueConstraint", ", ".join(repr(cname(c)) for c in u["cols"]))


def op_src(o):
    k = o[0]
    if k == "ct":
        return "op.create_table(%r, %s)" % (tname(o[1]), ", ".join([col_src(c) for c in o[2]] + [uniq_src(u) for u in o[3]]))
    if k == "dt":
        return "op.drop_table(%r)" % tname(o[1])
    if k == "ac":
        return "op.add_column(%r, %s)" % (tname(o[1]), col_src(o[2]))
    if k == "ci":
        return "op.create_index(%r, %r, [%s]%s)" % (iname(o[1]), tname(o[2]), ", ".join(repr(cname(c)) for c in o[3]),
                                                      ", unique=True" if len(o) > 4 and o[4] else "")
    if k == "di":
        return "op.drop_index(%r)" % iname(o[1])
    if k == "bi":
        tab = "sa.table(%r, %s)" % (tname(o[1]), ", ".join("sa.column(%r, %s)" % (cname(c), TYPES[ty]) for c, ty in o[2]))
        rows = "[" + ", ".join("{" + ", ".join("%r: %s" % (cname(int(c)), py_src(v)) for c, v in row.items()) + "}" for row in o[3]) + "]"
        multi = o[4] if len(o) > 4 else True
        return "op.bulk_insert(%s, %s%s)" % (tab, rows, "" if multi else ", multiinsert=False")
    if k == "xi":
        return "op.execute(%r)" % ("INSERT INTO %s (%s) VALUES (%s)" % (
            tname(o[1]), ", ".join(cname(int(c)) for c in o[2]), ", ".join(o[2].values())))
    if k == "xd":
        return "op.execute(%r)" % ("DELETE FROM %s" % tname(o[1]))
    if k == "xu":
        return "op.execute(%r)" % ("UPDATE %s SET %s = %s" % (tname(o[1]), cname(o[2]), o[3]))
    raise AssertionError(o)


def write_scripts(d, revs):
    os.makedirs(os.path.join(d, "versions"))
    open(os.path.join(d, "env.py"), "w").write(ENV_PY)
    open(os.path.join(d, "script.py.mako"), "w").write("")
    for r in revs:
        down = tuple(rname(x) for x in r["down"])
        down = None if not down else (down[0] if len(down) == 1 else down)
        deps = tuple(rname(x) for x in r["deps"]) or None
        body = lambda ops: "\n".join("    " + op_src(o) for o in ops) or "    pass"
        src = ("# -*- coding: utf-8 -*-\nimport datetime, decimal\nfrom alembic import op\nimport sqlalchemy as sa\n"
               "revision = %r\ndown_revision = %r\ndepends_on = %r\nbranch_labels = %r\n\n"
               "def upgrade():\n%s\n\ndef downgrade():\n%s\n" % (rname(r["id"]), down, deps, tuple(r.get("labels") or ()) or None,
                                                                  body(r["up"]), body(r["dn"])))
        open(os.path.join(d, "versions", "%s.py" % rname(r["id"])), "w", encoding="utf-8").write(src)


def read_db(path):
    """abstract a SQLite file: user tables (creation order), indexes, version rows (None = no table), raw master lines"""
    con = sqlite3.connect(path)
    try:
        master = con.execute("select type, name, tbl_name, sql from sqlite_master").fetchall()
        tabs, idx, raw, vers = [], [], [], None
        for ty, name, tbl, sql in master:
            if tbl == "alembic_version":
                if ty == "table":
                    vers = [r[0] for r in con.execute("select version_num from alembic_version")]
                continue
            raw.append("%s|%s|%s|%s" % (ty, name, tbl, sql))
            if ty == "table":
                cols = []
                for cid, cn, cty, notnull, dflt, pk in con.execute("pragma table_info(%s)" % name):
                    cols.append([int(cn[1:]), PRAGMA_TYPES.index(cty), None if dflt is None else list(parse_sql_lit(dflt)), bool(notnull)])
                uniq = []
                for seq, iname_, unique, origin, partial in con.execute("pragma index_list(%s)" % name):
                    if origin in ("pk", "u"):
                        uniq.append([int(r[2][1:]) for r in con.execute("pragma index_info(%s)" % iname_)])
                rows = [[db_value(x) for x in row] for row in con.execute("select * from %s order by rowid" % name)]
                tabs.append({"t": int(name[1:]), "cols": cols, "uniq": uniq, "rows": rows})
            elif ty == "index":
                il = [r for r in con.execute("pragma index_list(%s)" % tbl) if r[1] == name]
                if len(il) != 1 or il[0][4]:
                    raise AssertionError("unexpected index %r" % (il,))
                if il[0][3] != "c":
                    continue            # the automatic index of a PRIMARY KEY / UNIQUE constraint: part of the table
                icols = [int(r[2][1:]) for r in con.execute("pragma index_info(%s)" % name)]
                idx.append({"i": int(name[2:]), "t": int(tbl[1:]), "cols": icols, "unique": bool(il[0][2])})
            else:
                raise AssertionError("unexpected sqlite_master entry %r" % ty)
        return {"tabs": tabs, "idx": idx, "vers": vers, "raw": raw}
    finally:
        con.close()


def rid(s):
    return NAMES.index(s)


def canon_obs(o):
    return {"tabs": sorted(({"t": t["t"], "cols": t["cols"], "uniq": sorted(sorted(u) for u in t["uniq"]),
                             "rows": sorted(t["rows"], key=lambda r: json.dumps(r))}
                            for t in o["tabs"]), key=lambda t: t["t"]),
            "idx": sorted(o["idx"], key=lambda x: x["i"]),
            "vers": sorted(rid(v) for v in (o["vers"] or [])),
            # the text SQLite keeps for a CREATE statement differs in indentation only (tabs online, the four blanks
            # _exec substitutes offline): not a schema difference, normalised here (no literal occurs in the DDL generated)
            "raw": sorted(x.replace("\t", "    ") for x in o["raw"])}


def coq_ovalue(m):
    return "None" if m is None else "(Some %s)" % coq_value(tuple(m))


def coq_cols(cols, conv=lambda d: d):
    return cf.lst("mkCol %d %d %s %s" % (c, ty, coq_ovalue(conv(d)), cf.boolean(nn)) for c, ty, d, nn in cols)


def _sd(d):
    return None if d is None else stored(d)


def coq_table(t):
    return "mkTable %d %s %s %s" % (t["t"], coq_cols(t["cols"]), cf.lst(cf.nlist(u) for u in t["uniq"]),
                                    cf.lst(cf.lst(coq_value(tuple(v)) for v in row) for row in t["rows"]))


def coq_index(x):
    return "mkIndex %d %d %s %s" % (x["i"], x["t"], cf.nlist(x["cols"]), cf.boolean(x["unique"]))


def coq_obs(o, ok=True):
    return "(%s (mkObs %s %s %s %s))" % ("ROk" if ok else "RErr", cf.lst(coq_table(t) for t in o["tabs"]), cf.lst(coq_index(x) for x in o["idx"]),
                                            cf.nlist(o["vers"]), cf.lst(cf.string(s) for s in o["raw"]))


def split_script(text):
    """statements of the offline script: the buffer is a sequence of  <statement><terminator>"\\n\\n"  chunks"""
    parts = text.split(";\n\n")
    if parts[-1].strip() and not all(l.startswith("--") or not l.strip() for l in parts[-1].splitlines()):
        raise AssertionError("offline script does not end with a terminator: %r" % parts[-1][-200:])
    return [p for p in parts[:-1]]


class _Plan:
    """the steps alembic plans for the command and the version-table statements update_to_step issues for each"""

    def __init__(self, cfg, cmd, start, end):
        from alembic.script import ScriptDirectory
        from alembic.runtime.migration import HeadMaintainer
        script = ScriptDirectory.from_config(cfg)
        heads = (rname(start),) if start is not None else ()
        steps = script._upgrade_revs(end, heads) if cmd == "upgrade" else script._downgrade_revs(end, heads)
        log = []

        class Rec(HeadMaintainer):
            def _insert_version(self, version):
                assert version not in self.heads
                self.heads.add(version)
                log.append(("ins", rid(version)))

            def _delete_version(self, version):
                self.heads.remove(version)
                log.append(("del", rid(version)))

            def _update_version(self, from_, to_):
                assert to_ not in self.heads
                self.heads.remove(from_)
                self.heads.add(to_)
                log.append(("upd", rid(from_), rid(to_)))

        hm = Rec(None, heads)
        self.steps = []
        for st in steps:
            del log[:]
            hm.update_to_step(st)
            self.steps.append({"rev": rid(st.revision.revision), "up": bool(st.is_upgrade), "bk": list(log)})


def encode_steps(human, plan, startdb):
    """Coq term for the plan; bulk_insert dicts become full-width rows (absent key = NULL) against the schema at that point"""
    byid = {r["id"]: r for r in human["revs"]}
    schema = {t["t"]: [c[0] for c in t["cols"]] for t in startdb["tabs"]}
    out = []
    nrows = 0
    for st in plan.steps:
        ops = []
        for o in byid[st["rev"]]["up" if st["up"] else "dn"]:
            k = o[0]
            if k == "ct":
                ops.append("CreateTable %d %s %s" % (o[1], coq_cols(o[2], _sd), cf.lst(cf.nlist(u["cols"]) for u in o[3])))
                schema.setdefault(o[1], [c[0] for c in o[2]])
            elif k == "dt":
                ops.append("DropTable %d" % o[1])
                schema.pop(o[1], None)
            elif k == "ac":
                ops.append("AddColumn %d (mkCol %d %d %s %s)" % (o[1], o[2][0], o[2][1], coq_ovalue(_sd(o[2][2])), cf.boolean(o[2][3])))
                if o[1] in schema and o[2][0] not in schema[o[1]]:
                    schema[o[1]] = schema[o[1]] + [o[2][0]]
            elif k == "ci":
                ops.append("CreateIndex %d %d %s %s" % (o[1], o[2], cf.nlist(o[3]), cf.boolean(len(o) > 4 and o[4])))
            elif k == "di":
                ops.append("DropIndex %d" % o[1])
            elif k in ("bi", "xi"):
                cols = schema.get(o[1])
                conv = (lambda v: coq_value(stored(v))) if k == "bi" else cf.string
                rows = []
                for row in (o[3] if k == "bi" else [o[2]]):
                    if cols is None:
                        rows.append(["(Some %s)" % conv(v) for v in row.values()])
                    elif not set(int(c) for c in row) <= set(cols):
                        # names a column the table does not have (only after an injected inapplicable statement):
                        # SQLite rejects the INSERT; a row of the wrong width makes the model reject it too
                        rows.append(["None"] * (len(cols) + 1))
                    else:
                        # per column of the table: None = the dict has no such key (the INSERT omits the column)
                        rows.append(["(Some %s)" % conv(row[str(c)]) if str(c) in row else "None" for c in cols])
                nrows += len(rows)
                if k == "bi":
                    ops.append("BulkInsert %d %s" % (o[1], cf.lst(cf.lst(r) for r in rows)))
                else:
                    ops.append("Execute (RInsert %d %s)" % (o[1], cf.lst(rows[0])))
            elif k == "xd":
                ops.append("Execute (RDeleteAll %d)" % o[1])
            elif k == "xu":
                ops.append("Execute (RUpdateAll %d %d %s)" % (o[1], o[2], cf.string(o[3])))
            else:
                raise AssertionError(o)
        bk = []
        for b in st["bk"]:
            bk.append({"ins": "VIns %d", "del": "VDel %d", "upd": "VUpd %d %d"}[b[0]] % tuple(b[1:]))
        out.append("mkStep %s %s" % (cf.lst(ops), cf.lst(bk)))
    return cf.lst(out), nrows


def normalise(h):
    """inputs written by earlier versions of this plugin (corpus, replays): columns without NOT NULL flag / default,
    create_table without constraint list, create_index without unique flag, bulk_insert without multiinsert flag"""
    h = json.loads(json.dumps(h))
    h.setdefault("cfg", {"tddl": None, "tpm": False})
    h.setdefault("start_sp", {"kind": "base", "text": "base"} if h["start"] is None else {"kind": "id", "text": rname(h["start"])})
    for r in h["revs"]:
        r.setdefault("labels", [])

    def col(c):
        c = list(c)
        if len(c) == 2:
            c.append(None)
        if len(c) == 3:
            c.append(False)
        return c
    for r in h["revs"]:
        for body in (r["up"], r["dn"]):
            for o in body:
                if o[0] == "ct":
                    o[2] = [col(c) for c in o[2]]
                    if len(o) == 3:
                        o.append([])
                elif o[0] == "ac":
                    o[2] = col(o[2])
                elif o[0] == "ci" and len(o) == 4:
                    o.append(False)
                elif o[0] == "bi" and len(o) == 4:
                    o.append(True)
    return h


def run_case(h):
    h = normalise(h)
    import logging
    import warnings
    warnings.simplefilter("ignore")
    logging.disable(logging.CRITICAL)
    import sqlalchemy as sa
    from alembic import command, util
    from alembic.config import Config
    from alembic.runtime.migration import MigrationContext
    from alembic.script.revision import RevisionError

    d = tempfile.mkdtemp(prefix="avc12")
    try:
        write_scripts(d, h["revs"])

        def cfg_for(dbfile, buf=None):
            cfg = Config()
            cfg.set_main_option("script_location", d)
            cfg.set_main_option("sqlalchemy.url", "sqlite:///" + os.path.join(d, dbfile))
            cfg.set_main_option("av_tddl", {None: "default", True: "true", False: "false"}[h["cfg"]["tddl"]])
            cfg.set_main_option("av_tpm", "true" if h["cfg"]["tpm"] else "false")
            if buf is not None:
                cfg.output_buffer = buf
            return cfg

        start, end, cmd = h["start"], h["end"], h["cmd"]
        endname = rname(end) if isinstance(end, int) else end
        startname = rname(start) if start is not None else "base"
        # the starting database: everything up to `start` applied online (nothing at all for base)
        sdb = os.path.join(d, "start.db")
        if start is not None:
            command.upgrade(cfg_for("start.db"), startname)      # a failure here is a harness problem: propagate
        else:
            con0 = sqlite3.connect(sdb)
            if h.get("empty_vt"):
                # a database that was migrated and then downgraded to base online: the version table exists and is empty
                con0.execute("CREATE TABLE alembic_version (version_num VARCHAR(32) NOT NULL, "
                             "CONSTRAINT alembic_version_pkc PRIMARY KEY (version_num))")
                con0.commit()
            con0.close()
        shutil.copy(sdb, os.path.join(d, "on.db"))
        shutil.copy(sdb, os.path.join(d, "off.db"))
        startdb = read_db(sdb)
        fn = command.upgrade if cmd == "upgrade" else command.downgrade
        expected = (util.CommandError, RevisionError, sa.exc.SQLAlchemyError, AssertionError, KeyError)

        # the plan, as input of the model
        plan_err = None
        try:
            plan = _Plan(cfg_for("start.db"), cmd, start, endname)
        except expected as e:
            plan, plan_err = None, type(e).__name__

        # online
        on_err = None
        try:
            fn(cfg_for("on.db"), endname)
        except expected as e:
            on_err = type(e).__name__
        on = read_db(os.path.join(d, "on.db"))      # after an error: what the rolled-back transaction left
        # offline: script into the buffer, then statement by statement with the sqlite3 module
        off_err = None
        buf = io.StringIO()
        nstmts = 0
        try:
            fn(cfg_for("nonexistent.db", buf), "%s:%s" % (h["start_sp"]["text"], endname), sql=True)
            stmts = split_script(buf.getvalue())
            nstmts = len(stmts)
            con = sqlite3.connect(os.path.join(d, "off.db"), isolation_level=None)
            try:
                for s in stmts:
                    con.execute(s)
            finally:
                con.close()
        except expected as e:
            off_err = type(e).__name__
        except sqlite3.Error as e:
            off_err = "sqlite3." + type(e).__name__
        off = read_db(os.path.join(d, "off.db"))    # after an error: every statement before the failing one (autocommit)

        # DefaultImpl._exec on one raw statement text
        rbuf = io.StringIO()
        ctx = MigrationContext.configure(dialect_name="sqlite", opts={"as_sql": True, "output_buffer": rbuf})
        ctx.impl._exec(sa.text(h["raw"]))
        posted = rbuf.getvalue()
        if not posted.endswith("\n\n"):
            raise AssertionError("static_output did not end the statement with a blank line")
        posted = posted[:-2]

        con_, coff_ = canon_obs(on), canon_obs(off)
        if plan is None:
            # the command itself is rejected: model input = empty plan on an unusable range is meaningless; encode as
            # a plan with one inapplicable step so that both model runs abort as well
            steps_term, nrows = "[mkStep [DropIndex 999999] []]", 0
        else:
            steps_term, nrows = encode_steps(h, plan, startdb)
        vers = startdb["vers"]
        db_term = "(mkU %s %s, %s)" % (cf.lst(coq_table(t) for t in startdb["tabs"]), cf.lst(coq_index(x) for x in startdb["idx"]),
                                       "None" if vers is None else "Some %s" % cf.nlist(rid(v) for v in vers))
        cfg_term = "(mkCfg %s %s)" % ({None: "None", True: "(Some true)", False: "(Some false)"}[h["cfg"]["tddl"]],
                                       cf.boolean(h["cfg"]["tpm"]))
        sp = h["start_sp"]
        spell_term = {"base": "SpBase", "head": "SpHead"}.get(sp["kind"]) or \
            "(%s %s)" % ("SpPrefix" if sp["kind"] == "prefix" else "SpKey", cf.string(sp["text"]))
        heads_now = [r["id"] for r in h["revs"] if not any(r["id"] in c["down"] for c in h["revs"])]
        map_term = cf.lst("mkR %d %s %s %s" % (r["id"], cf.string(rname(r["id"])), cf.lst(cf.string(l) for l in r["labels"]),
                                               cf.boolean(r["id"] in heads_now)) for r in h["revs"])
        cin = "mkIn %s %s %s %s %s %s" % (db_term, spell_term, map_term, steps_term, cf.string(h["raw"]), cfg_term)
        cout = "mkOut %s %s %s" % (coq_obs(con_, on_err is None), coq_obs(coff_, off_err is None), cf.string(posted))
        nsteps = len(plan.steps) if plan else 0
        branched = any(len(r["down"]) > 1 or r["deps"] for r in h["revs"]) or \
            len([r for r in h["revs"] if not r["down"]]) > 1 or \
            any(len([c for c in h["revs"] if r["id"] in c["down"]]) > 1 for r in h["revs"])
        shape = "%s-%s-%s-%s%s-%s" % (cmd, h["start_sp"]["kind"], "branched" if branched else "linear",
                                   "err" if (on_err or off_err) else ("empty" if nsteps == 0 else "ok"),
                                   "-tabs" if h.get("tabs") else "",
                                   {None: "ddlD", True: "ddlT", False: "ddlF"}[h["cfg"]["tddl"]] + ("-pm" if h["cfg"]["tpm"] else ""))
        out = {"online": con_, "offline": coff_, "online_error": on_err, "offline_error": off_err, "plan_error": plan_err,
               "plan": plan.steps if plan else None, "statements": nstmts, "posted": posted}
        return dict(cin=cin, cout=cout, out=out, nontrivial=bool(not on_err and not off_err and nsteps > 0 and nrows > 0),
                    shape=shape)
    finally:
        shutil.rmtree(d, ignore_errors=True)


def extra_evidence():
    """`start` of an offline range is base or ONE revision: probe that alembic rejects every multi-head spelling"""
    import io as _io
    import warnings
    warnings.simplefilter("ignore")
    from alembic import command, util
    from alembic.config import Config
    revs = [{"id": 0, "down": [], "deps": [], "up": [], "dn": []}, {"id": 1, "down": [0], "deps": [], "up": [], "dn": []},
            {"id": 2, "down": [0], "deps": [], "up": [], "dn": []}]
    d = tempfile.mkdtemp(prefix="avc12mh")
    res = {}
    try:
        write_scripts(d, revs)
        for fn, rng in ((command.upgrade, "r1+r2:heads"), (command.upgrade, "r1,r2:heads"), (command.downgrade, "r1+r2:base"),
                        (command.downgrade, "heads:base"), (command.downgrade, "r1,r2:r0")):
            cfg = Config()
            cfg.set_main_option("script_location", d)
            cfg.set_main_option("sqlalchemy.url", "sqlite:///" + os.path.join(d, "x.db"))
            cfg.output_buffer = _io.StringIO()
            try:
                fn(cfg, rng, sql=True)
                res["%s %s" % (fn.__name__, rng)] = "accepted"
            except util.CommandError:
                res["%s %s" % (fn.__name__, rng)] = "CommandError"
    finally:
        shutil.rmtree(d, ignore_errors=True)
    return {"multi_head_start_rejected": all(v == "CommandError" for v in res.values()), "multi_head_start_probe": res}


def canary(human, rec):
    """corruptions of the observed output that violate C12_holds (o_on vs o_off): the decider must reject every one.
    The online side is kept as observed; the offline side is damaged in one place per canary."""
    import copy
    out = rec.get("out") or {}
    on, off = out.get("online"), out.get("offline")
    if on is None or off is None:
        return []
    on_ok, off_ok = out.get("online_error") is None, out.get("offline_error") is None
    posted = cf.string(out.get("posted", ""))

    def term(o_off, ok_off):
        return "mkOut %s %s %s" % (coq_obs(on, on_ok), coq_obs(o_off, ok_off), posted)

    if on_ok != off_ok:
        return []                      # already a violation (a known-finding case): nothing to corrupt
    if not on_ok:
        # both stopped by an error: the property only says "the other side fails too" -> turn one error into success
        return [term(off, True)]
    if json.dumps(on, sort_keys=True) != json.dumps(off, sort_keys=True):
        return []                      # observed output already fails the decider (known finding)
    cans = [term(off, False)]          # success turned into an error on one side
    # a row lost
    for k, t in enumerate(off["tabs"]):
        if t["rows"]:
            c = copy.deepcopy(off)
            del c["tabs"][k]["rows"][-1]
            cans.append(term(c, True))
            break
    # one literal changed by one character / one unit
    done = False
    for k, t in enumerate(off["tabs"]):
        for i, row in enumerate(t["rows"]):
            for j, v in enumerate(row):
                v = list(v)
                if v[0] == "text":
                    nv = ["text", (v[1][:-1] + ("y" if v[1][-1:] != "y" else "z")) if v[1] else "x"]
                elif v[0] == "int":
                    nv = ["int", v[1] + 1]
                elif v[0] == "null":
                    nv = ["int", 0]
                else:
                    nv = ["num", v[1] + "1"]
                c = copy.deepcopy(off)
                c["tabs"][k]["rows"][i][j] = nv
                cans.append(term(c, True))
                done = True
                break
            if done:
                break
        if done:
            break
    # version rows: a revision lost, or a stale one left behind
    c = copy.deepcopy(off)
    if c["vers"]:
        c["vers"] = c["vers"][:-1]
    else:
        c["vers"] = [99]
    cans.append(term(c, True))
    # schema: NOT NULL flag of a column flipped; an index / a table lost
    if off["tabs"]:
        c = copy.deepcopy(off)
        c["tabs"][0]["cols"][0][3] = not c["tabs"][0]["cols"][0][3]
        cans.append(term(c, True))
        c = copy.deepcopy(off)
        del c["tabs"][-1]
        cans.append(term(c, True))
    if off["idx"]:
        c = copy.deepcopy(off)
        c["idx"][0]["unique"] = not c["idx"][0]["unique"]
        cans.append(term(c, True))
    # the text SQLite keeps for a CREATE statement: one character changed
    if off["raw"]:
        c = copy.deepcopy(off)
        c["raw"][0] = c["raw"][0][:-1] + ("#" if c["raw"][0][-1:] != "#" else "!")
        cans.append(term(c, True))
    cans = [x for x in cans if x != rec["cout"]]
    # three kinds per case, rotating over the kinds that apply, so that every kind is exercised across the run
    # (each term carries two whole observables: the full set on every case would double the run time)
    if len(cans) > 3:
        k0 = sum(ord(ch) for ch in rec["cin"][:400]) % len(cans)
        cans = [cans[(k0 + i) % len(cans)] for i in range(3)]
    return cans
