"""C08 — rendered migration code vs the operation objects: real render_python_code parsed with ast and executed
under Operations, compared with Model.Render (render_ops / eval_stmts)."""
import json
import os
import random

from harness import c08_lib as L

PROP = "C08"
COQ = dict(imports=["Model.Render", "Spec.C08"], in_ty="c08_in", out_ty="c08_out", corr="corr_C08", decide="check_C08",
           inclass="inclass_C08", model="model_C08")
THEOREMS = ["C08_plain_for_conv_rejected", "C08_eval_refuted_unbound_index_name",
            "py_repr_roundtrip", "C08_lex_tokens", "C08_all_leaves_via_repr", "C08_render_wf", "C08_tokens",
            "C08_raw_quote_breaks", "C08_eval", "C08_eval_closed", "C08_missing_import_rejected", "C08_fk_dotted_schema",
            "C08_decider_sound", "C08_main", "C08_eval_refuted_default_quotes",
            "C08_eval_refuted_quote_flag", "C08_eval_refuted_drop_table_types"]
TRUSTED = [
    "CPython's parser for the step from the token list to the call tree (ast.parse on the real text is part of the correspondence)",
    "str.isprintable enters py_repr as a Section variable (the round trip is proved for every oracle)",
    "SQLAlchemy: repr() of type objects and compiled SQL expressions are opaque tokens (call trees / strings given to the model); "
    "Column / Constraint / Table constructors and op.to_table()/to_index() are observed through the abstraction in harness/c08_lib.py",
    "same operation object => same DDL: the step from C08_eval to equal SQL is the determinism of Operations.invoke; it is observed "
    "on every case (o_sql_same on five dialects), not proved",
]
ASSUME = [
    "identifiers are plain str (no quoted_name quote flag), string server defaults have no quote at either end, table prefixes "
    "contain no quote/backslash/newline (inclass_C08); outside this class only the decider speaks",
    "module prefixes are the single names op / sa; type objects are sqlalchemy.* or sqlalchemy.dialects.* without variants/ARRAY",
]
RULE = ("seeded random operation trees over 13 operation kinds x identifier classes {plain, reserved, mixed case, space, single "
        "quote, double quote, both quotes, backslash, non-ASCII, non-printable, astral, percent} x schema x naming convention x "
        "batch/non-batch; stream B (SQL comparison only, outside the modelled universe): primary-key/foreign-key/unique flags on "
        "added columns, Identity, functional indexes, dialect options, Enum/Boolean with constraints, dialect types (postgresql "
        "ARRAY/JSONB/JSON/HSTORE/UUID/BYTEA, mysql, mssql, oracle; alone and mixed) rendered under a migration context of their "
        "dialect, foreign keys into dotted two-part schemas. The rendering comes from render._render_python_into_templatevars "
        "(text and import lines) and is executed in a namespace holding only op, sa and what the import lines bind. non-trivial = at least one "
        "statement rendered and executed; distinct by the encoded input")
EXHAUSTIVE = {"quick": False, "thorough": False}
CASE_TIMEOUT = 60
DESIGN_REF = "DESIGN.md section 5 C08"
TECHNIQUE = ("Coq proofs about a Gallina transcription of autogenerate/render.py at call-tree level (escaping discipline of "
             "str.__repr__ for all strings, read-back of the tree by the Operations proxies), tied to the code by exact structural "
             "comparison of the parsed real output and of the operation objects recorded while executing it")
LEVEL_TEXT = ("Machine-checked: repr-then-lex is the identity on every string for every printability oracle; the printed call tree "
              "of every renderer lexes to the intended tokens when all leaves go through repr, which holds for every renderer "
              "except table prefixes (refuted with witness); reading the rendered tree back yields the same operation objects "
              "on the stated class (refuted outside it with witnesses), also when evaluated in the namespace that holds only the two "
              "module names and the collected imports (C08_eval_closed: no free names). Each run compares model and real renderer structurally, "
              "and executes the rendered text on five dialects against direct invocation.")
LEVEL_NOTE = ("Partial: SQLAlchemy type repr and rendered SQL expressions are opaque; token list -> call tree is CPython's parser; "
              "sqlite is skipped in batch mode (needs a live table); equal operation objects => equal SQL is observed, not proved.")

NAMES = ["acct", "select", "MixedCase", "has space", "it's", 'say"hi', "a'b\"c", "back\\slash", "naïve ключ",
         "zero​width", "astral\U0001F600", "pct%s", "tab\there", "x"]
PLAIN = ["acct", "t1", "orders", "x", "user_id", "name"]
TEXTS = ["plain text", "it's", 'say "hi"', "both ' and \"", "back\\slash", "multi\nline", "éè 中文", "nul\x00ch",
         "\x7f\x80\x9f\xa0\xad", "\ud800 lone", "\U0010ffff", "%(x)s %s %%"]
SQLS = ["1", "0", "now()", "'abc'", "n > 0", "lower(name)", "a + 1", "'it''s'"]
TYPES = [("Integer", []), ("String", [30]), ("String", []), ("Text", []), ("Boolean", []), ("Numeric", [10, 2]),
         ("DateTime", []), ("DateTime", [True]), ("Float", []), ("LargeBinary", []), ("BigInteger", []), ("Enum", ["a", "it's"]),
         ("pg.INET", []), ("pg.UUID", []), ("mysql.TINYINT", [1]), ("mssql.MONEY", []), ("oracle.NUMBER", [10, 2])]


def mk_type(t):
    import sqlalchemy as sa
    from sqlalchemy.dialects import postgresql, mysql, mssql, oracle
    name, a = t
    if name == "Enum":
        return sa.Enum(*a, name="en")
    if name == "DateTime" and a:
        return sa.DateTime(timezone=True)
    if name.startswith("pg."):
        return getattr(postgresql, name[3:])(*a)
    if name.startswith("mysql."):
        return getattr(mysql, name[6:])(*a)
    if name.startswith("mssql."):
        return getattr(mssql, name[6:])(*a)
    if name.startswith("oracle."):
        return getattr(oracle, name[7:])(*a)
    return getattr(sa, name)(*a)


# ----------------------------------------------------------------------------- generator (descriptions only)
class G:
    def __init__(self, rnd, weird, named=False):
        self.r = rnd
        self.weird = weird      # probability of an unusual identifier / text
        self.named = named      # every constraint / index gets a name (conventions with %(constraint_name)s need one)

    def name(self):
        r = self.r
        return r.choice(NAMES) if r.random() < self.weird else r.choice(PLAIN) + (str(r.randrange(9)) if r.random() < .5 else "")

    def text(self):
        r = self.r
        return r.choice(TEXTS) if r.random() < self.weird else r.choice(["note", "a comment", "x"])

    def oname(self, p=.5):
        return self.name() if self.r.random() < p else None

    def oschema(self, p=.4):
        """no schema, a one-token schema, or a dotted two-part one (otherdb.dbo: database and owner)"""
        r = self.r
        if r.random() >= p:
            return None
        if r.random() < .4:
            return r.choice(["otherdb", "db1", "main"]) + "." + r.choice(["dbo", "sch", "owner2"])
        return self.name()

    def cname(self):
        x = self.r.random()
        if x < .25 and not self.named:
            return None
        if x < .45:
            return {"conv": "cv_" + self.name()}
        return {"plain": "nm_" + self.name()}

    def default(self, computed=False):
        r = self.r
        x = r.random()
        if x < .42:
            return None
        if x < .47:
            return {"fetched": True}
        if x < .65:
            return {"str": self.text()}
        if x < .85 or not computed:
            return {"text": r.choice(SQLS)}
        if x < .93:
            return {"computed": r.choice(["a + 1", "n * 2"]), "persisted": r.choice([None, True, False])}
        return {"identity": {"always": r.choice([True, False]), "on_null": r.choice([None, None, True]), "start": r.choice([None, 1, 3, -5]),
                             "increment": r.choice([None, 2, -1]), "minvalue": r.choice([None, None, -10]),
                             "maxvalue": r.choice([None, None, 1000]), "nominvalue": r.choice([None, None, True]),
                             "nomaxvalue": r.choice([None, None, False]), "cycle": r.choice([None, True, False]),
                             "cache": r.choice([None, 10]), "order": r.choice([None, True])}}

    def col(self, name=None, computed=False):
        r = self.r
        d = self.default(computed)
        key = ("k_%d_%s" % (r.randrange(100), r.choice(PLAIN))) if r.random() < .25 else None     # Column.key != name (ORM attribute name)
        if d and "identity" in d:       # SQLAlchemy: Identity needs an integer column and refuses autoincrement=False
            return {"name": name or self.name(), "type": ("Integer", []), "default": d, "autoinc": r.choice([None, True]),
                    "nullable": False, "system": False, "comment": self.text() if r.random() < .3 else None, "key": key}
        return {"name": name or self.name(), "type": r.choice(TYPES), "default": d, "key": key,
                "autoinc": r.choice([None, None, None, True, False]), "nullable": r.random() < .6, "system": r.random() < .05,
                "comment": self.text() if r.random() < .3 else None}

    def cols(self, n):
        out, seen = [], set()
        while len(out) < n:
            c = self.col(computed=True)
            if c["name"] not in seen:
                seen.add(c["name"])
                if c.get("key") and any(c["key"] == o.get("key") for o in out):     # keys are unique within a table
                    c["key"] = "%s_%d" % (c["key"], len(out))
                out.append(c)
        return out

    def fkopts(self):
        r = self.r
        return {"onupdate": r.choice([None, None, "CASCADE"]), "ondelete": r.choice([None, "SET NULL", "CASCADE"]),
                "initially": r.choice([None, None, "DEFERRED"]), "deferrable": r.choice([None, None, True, False]),
                "use_alter": r.random() < .1, "match": r.choice([None, None, "FULL"])}

    def table(self):
        r = self.r
        cols = self.cols(r.randint(1, 4))
        names = [c["name"] for c in cols]
        cons = []
        if r.random() < .6:
            cons.append({"k": "pk", "cols": r.sample(names, r.randint(1, min(2, len(names)))), "name": self.cname()})
        if r.random() < .5:
            k = {"k": "fk", "cols": [r.choice(names)], "reftable": "p_" + self.name(), "refschema": self.oschema(.45), "refcols": [self.name()],
                 "name": self.cname()}
            k.update(self.fkopts())
            cons.append(k)
        if r.random() < .5:
            cons.append({"k": "uq", "cols": r.sample(names, r.randint(1, min(2, len(names)))), "name": self.cname(),
                         "deferrable": r.choice([None, None, True, False]), "initially": r.choice([None, None, "DEFERRED"])})
        if r.random() < .4:
            cons.append({"k": "ck", "sql": r.choice(SQLS), "name": self.cname()})
        return {"name": self.name(), "schema": self.oschema(.4), "cols": cols, "cons": cons,
                "comment": self.text() if r.random() < .3 else None,
                "prefixes": ([r.choice(["TEMPORARY", "TEMP'ORARY", 'say "x"', "back\\slash", "é"])] + (["UNLOGGED"] if r.random() < .3 else []))
                if r.random() < .15 else [],
                "if_not_exists": r.choice([None, None, None, True, False])}

    def tblop(self, kind):
        o = self._tblop(kind)
        # Column.key != database name on the columns an index / constraint hangs on (SQLAlchemy refers to them by key)
        names = o.get("cols") or [e["col"] for e in o.get("exprs", []) if "col" in e]
        keys = {n: "k%d_%s" % (i, self.r.choice(PLAIN)) for i, n in enumerate(dict.fromkeys(names)) if self.r.random() < .3}
        if keys and kind in ("create_index", "drop_index", "create_unique", "create_fk", "drop_constraint"):
            o["keys"] = keys
        return o

    def _tblop(self, kind):
        r = self.r
        if kind == "add_column":
            return {"k": kind, "col": self.col(computed=True)}
        if kind == "drop_column":
            return {"k": kind, "col": self.col()}
        if kind == "alter_column":
            sd = r.choice(["keep", "keep", "none", "set"])
            nullable = r.choice([None, True, False])
            cm = r.choice(["keep", "keep", "none", "set"])
            return {"k": kind, "col": self.name(), "existing_type": r.choice([None] + TYPES),
                    "server_default": sd if sd != "set" else {"set": self.default() or {"str": "dflt"}},
                    "new_name": self.oname(.2), "type": r.choice([None, None] + TYPES), "nullable": nullable,
                    "comment": cm if cm != "set" else {"set": self.text()}, "existing_comment": self.text() if r.random() < .3 else None,
                    "existing_nullable": r.choice([None, True, False]) if nullable is None else None,
                    "autoincrement": r.choice([None, None, None, True, False]),
                    "existing_server_default": (self.default() if sd == "keep" else None)}
        if kind in ("create_index", "drop_index"):
            n = r.randint(1, 3)
            exprs, seen = [], set()
            for _ in range(n):
                y = r.random()
                if y < .6:
                    e = {"col": self.name()}
                elif y < .75:
                    e = {"expr": r.choice(["lower(name)", "a + 1", "coalesce(x, 'it''s')"])}          # text()
                elif y < .9:
                    e = {"lit": r.choice(["lower(code)", "code", "a || b", "upper(name)"])}              # literal_column()
                else:
                    e = {"colclause": r.choice(PLAIN)}                                                  # column(): no table
                if repr(e) not in seen:
                    seen.add(repr(e))
                    exprs.append(e)
            if self.named and not any("col" in e for e in exprs):
                # an index over a bare column() only keeps a plain name under a convention with %(constraint_name)s, while the
                # rendered code names the column by a string and gets the convention applied
                # (finding C08-convention-applied-to-expression-only-index); every index gets a table column here
                exprs.insert(0, {"col": self.name()})
            kw = {}
            if r.random() < .3:
                kw["postgresql_using"] = r.choice(["gin", "btree", "it's"])
            if r.random() < .3:
                kw["postgresql_where"] = r.choice(["x > 0", "c = 'it''s'", "lower(name) <> ''"])
            if r.random() < .2:
                kw["postgresql_concurrently"] = r.choice([True, False])
            return {"k": kind, "name": self.cname() or {"plain": "ix_" + self.name()}, "exprs": exprs, "unique": r.choice([False, True]),
                    "if_x": r.choice([None, None, True, False]), "kw": kw}
        if kind == "create_unique":
            return {"k": kind, "cols": [self.name() for _ in range(r.randint(1, 2))], "name": self.cname(),
                    "deferrable": r.choice([None, None, True, False]), "initially": r.choice([None, None, "DEFERRED"])}
        if kind == "create_fk":
            k = {"k": kind, "cols": [self.name()], "reftable": "p_" + self.name(), "refschema": self.oschema(.45), "refcols": [self.name()],
                 "name": self.cname()}
            k.update(self.fkopts())
            return k
        if kind == "drop_constraint":
            ck = r.choice(["uq", "fk", "ck", "pk"])
            return {"k": kind, "ck": ck, "cols": [self.name()], "name": self.cname() or {"plain": "c_" + self.name()},
                    "reftable": "p_" + self.name(), "refcols": [self.name()], "sql": r.choice(SQLS)}
        if kind == "table_comment":
            return {"k": kind, "comment": self.text() if r.random() < .9 else None, "existing": self.text() if r.random() < .5 else None}
        if kind == "drop_table_comment":
            return {"k": kind, "existing": self.text() if r.random() < .5 else None}
        raise ValueError(kind)


TBL_KINDS = ["add_column", "drop_column", "alter_column", "create_index", "drop_index", "create_unique", "create_fk",
             "drop_constraint", "table_comment", "drop_table_comment"]


def no_enum(t):
    """the rendered drop_table has no columns, so PostgreSQL's DROP TYPE of an Enum column is lost (finding
    C08-drop-table-enum-type); kept out of the ordinary stream"""
    for c in t["cols"]:
        if c["type"][0] == "Enum":
            c["type"] = ("String", [30])
    return t


def gen_case(rnd, k):
    weird = [0.0, 0.3, 0.7, 1.0][k % 4]
    nc = (k // 8) % 3
    g = G(rnd, weird, named=(nc == 2))
    cfg = {"op": "aop" if k % 5 == 0 else "op", "sa": "sqla" if k % 7 == 0 else "sa", "batch": (k // 4) % 2 == 1}
    ops = []
    for _ in range(rnd.randint(1, 3)):
        x = rnd.random()
        if x < .25:
            ops.append({"k": "create_table", "table": g.table()})
        elif x < .33:
            ops.append({"k": "drop_table", "table": no_enum(g.table()), "if_exists": rnd.choice([None, None, True, False])})
        elif x < .8:
            ops.append({"k": "modify", "table": g.name(), "schema": g.oschema(.4),
                        "ops": [g.tblop(rnd.choice(TBL_KINDS)) for _ in range(rnd.randint(0 if x < .36 else 1, 3))]})
        elif x < .93:
            ops.append({"k": "top", "table": g.name(), "schema": g.oname(.4), "op": g.tblop(rnd.choice(["create_index", "drop_index", "create_fk"]))})
        else:
            # ExecuteSQLOp (what a process_revision_directives hook adds); rendered with the configured prefix
            ops.append({"k": "execute", "sql": rnd.choice(["select 1", "update t set c = 'it''s'", "-- comment\nvacuum", g.text()])})
    return {"stream": "A", "cfg": cfg, "nc": nc, "ops": ops}


def gen_single(rnd, kind, k):
    """one operation of a given kind, so that every kind x identifier class x schema x nc x batch occurs"""
    nc = (k // 6) % 3
    g = G(rnd, [0.0, 0.5, 1.0][k % 3], named=(nc == 2))
    cfg = {"op": "op", "sa": "sa", "batch": (k // 3) % 2 == 1}
    schema = [None, "otherdb.dbo" if k % 2 else "sch", g.name()][(k // 12) % 3]
    if kind == "create_table":
        t = g.table()
        t["schema"] = schema
        if k % 4 == 3:          # an inline foreign key to a table in a dotted two-part schema, always
            fks = [c for c in t["cons"] if c["k"] == "fk"]
            if not fks:
                fk = {"k": "fk", "cols": [t["cols"][0]["name"]], "reftable": "p_" + g.name(), "refcols": [g.name()], "name": g.cname()}
                fk.update(g.fkopts())
                t["cons"].append(fk)
                fks = [fk]
            fks[0]["refschema"] = "otherdb.dbo"
        ops = [{"k": "create_table", "table": t}]
    elif kind == "drop_table":
        t = no_enum(g.table())
        t["schema"] = schema
        ops = [{"k": "drop_table", "table": t, "if_exists": rnd.choice([None, True])}]
    else:
        ops = [{"k": "modify", "table": g.name(), "schema": schema, "ops": [g.tblop(kind)]}]
    return {"stream": "A", "cfg": cfg, "nc": nc, "ops": ops}


FINDING_IDS = ["C08-server-default-quote-strip", "C08-quoted-name-flag-lost",
               "C08-add-column-primary-key-lost", "C08-drop-table-enum-type",
               "C08-mysql-functional-index-parens", "C08-percent-doubled-in-sql-expressions",
               "C08-convention-applied-to-expression-only-index", "C08-fk-referred-column-key-in-direct-invoke",
               "C08-dialect-type-inner-type-unqualified"]


def registered():
    """ids recorded in known_findings.json; VERIF_FINDINGS=all also generates the unregistered finding classes"""
    if os.environ.get("VERIF_FINDINGS") == "all":
        return set(FINDING_IDS)
    try:
        doc = json.load(open(os.path.join(os.path.dirname(os.path.dirname(os.path.dirname(os.path.abspath(__file__)))), "known_findings.json")))
        return {f["id"] for f in doc.get("findings", []) if f.get("property") == PROP}
    except Exception:
        return set()


def finding_cases(reg):
    col = lambda **kw: dict({"name": "c", "type": ("String", [5]), "default": None, "autoinc": None, "nullable": True,
                             "system": False, "comment": None}, **kw)
    cfg = {"op": "op", "sa": "sa", "batch": False}
    out = []
    if "C08-server-default-quote-strip" in reg:
        for d in ["'x'", "y'", "'z", "'"]:
            out.append({"stream": "A", "cfg": cfg, "nc": False, "finding": "C08-server-default-quote-strip",
                        "ops": [{"k": "modify", "table": "t", "schema": None, "ops": [{"k": "add_column", "col": col(default={"str": d})}]}]})
    if "C08-quoted-name-flag-lost" in reg:
        out.append({"stream": "A", "cfg": cfg, "nc": False, "finding": "C08-quoted-name-flag-lost", "quote": True,
                    "ops": [{"k": "drop_table", "table": {"name": "plain", "schema": None, "cols": [col()], "cons": [], "comment": None,
                                                          "prefixes": [], "if_not_exists": None}, "if_exists": None}]})
        out.append({"stream": "A", "cfg": cfg, "nc": False, "finding": "C08-quoted-name-flag-lost", "quote": True,
                    "ops": [{"k": "modify", "table": "plain", "schema": None, "ops": [{"k": "drop_column", "col": col()}]}]})
    if "C08-drop-table-enum-type" in reg:
        out.append({"stream": "A", "cfg": cfg, "nc": False, "finding": "C08-drop-table-enum-type",
                    "ops": [{"k": "drop_table", "table": {"name": "t", "schema": None, "cols": [col(type=("Enum", ["a", "b"]))], "cons": [],
                                                          "comment": None, "prefixes": [], "if_not_exists": None}, "if_exists": None}]})
    if "C08-fk-referred-column-key-in-direct-invoke" in reg:
        out.append({"stream": "A", "cfg": cfg, "nc": False, "finding": "C08-fk-referred-column-key-in-direct-invoke",
                    "ops": [{"k": "create_table", "table": {
                        "name": "t", "schema": None, "cols": [col(name="fk", type=("Integer", []))],
                        "cons": [{"k": "fk", "cols": ["fk"], "reftable": "t2", "refschema": "remote", "refcols": ["c_rem"],
                                  "refkeys": {"c_rem": "c_remkey"}, "name": None, "onupdate": None, "ondelete": None, "initially": None,
                                  "deferrable": None, "use_alter": False, "match": None}],
                        "comment": None, "prefixes": [], "if_not_exists": None}}]})
    if "C08-convention-applied-to-expression-only-index" in reg:
        out.append({"stream": "A", "cfg": cfg, "nc": 2, "finding": "C08-convention-applied-to-expression-only-index",
                    "ops": [{"k": "modify", "table": "t", "schema": None,
                             "ops": [{"k": "drop_index", "name": {"plain": "ix1"}, "exprs": [{"colclause": "x"}], "unique": False, "if_x": None}]}]})
    if "C08-percent-doubled-in-sql-expressions" in reg:
        out.append({"stream": "B", "cfg": cfg, "nc": False, "finding": "C08-percent-doubled-in-sql-expressions", "b": "pct_default"})
    if "C08-add-column-primary-key-lost" in reg:
        out.append({"stream": "B", "cfg": cfg, "nc": False, "finding": "C08-add-column-primary-key-lost", "b": "addcol_pk"})
    if "C08-dialect-type-inner-type-unqualified" in reg:
        # a PostgreSQL type that wraps another type, rendered WITHOUT a PostgreSQL migration context (render_python_code's
        # default context, or the context of another dialect: no impl renderer), then run on PostgreSQL:
        # postgresql.JSONB(astext_type=Text()) / postgresql.ARRAY(Integer()) -- the inner type is a free name
        for b in ("pg_jsonb", "pg_array", "pg_hstore"):
            out.append({"stream": "B", "cfg": cfg, "nc": False, "finding": "C08-dialect-type-inner-type-unqualified", "b": b,
                        "names": ["t", "c", "d", "e"], "dialects": ["postgresql"], "default_render": True})
    return out


B_KINDS = ["lit_index", "cast_index", "identity", "func_index", "pg_index_opts", "mysql_table_opts", "bool_enum_constraints", "label_index", "variant",
           "array", "col_unique_index_flags_table", "fk_schema_nc", "drop_index_opts", "computed",
           # dialect types (rendered under a migration context of each dialect in turn, as env.py would give autogenerate):
           # the rendered body must run in a namespace that holds only op, sa and the collected imports
           "pg_array", "pg_jsonb", "pg_json", "pg_hstore", "pg_uuid_bytea", "pg_mixed", "pg_alter_types", "pg_add_column",
           "mysql_types", "mssql_types", "oracle_types", "dialects_mixed", "fk_dotted_schema"]


def generate(tier, seed):
    rnd = random.Random(seed * 7919 + 8)
    reg = registered()
    yield from finding_cases(reg)
    kinds = ["create_table", "drop_table"] + TBL_KINDS
    reps = 36 if tier == "quick" else 36 * 8
    for kind in kinds:
        for k in range(reps):
            yield gen_single(rnd, kind, k)
    n = 500 if tier == "quick" else 12000
    for k in range(n):
        yield gen_case(rnd, k)
    for b in B_KINDS:
        if b in ("func_index", "cast_index") and "C08-mysql-functional-index-parens" not in reg:
            continue
        for k in range(6 if tier == "quick" else 40):
            # a percent sign inside a rendered SQL expression is doubled on pyformat dialects (finding
            # C08-percent-doubled-in-sql-expressions): kept out of the ordinary stream unless registered
            pool = NAMES if "C08-percent-doubled-in-sql-expressions" in reg else [n for n in NAMES if "%" not in n]
            yield {"stream": "B", "cfg": {"op": "op", "sa": "sa", "batch": False}, "nc": k % 2 == 1, "b": b,
                   "names": [rnd.choice(pool) for _ in range(4)]}


def search(tier, seed):
    # finding classes that are not registered yet stay here (the search stream) until they are
    yield from finding_cases(set(FINDING_IDS) - registered())
    rnd = random.Random(seed * 104729 + 8)
    for k in range(3000):
        yield gen_case(rnd, k)


# ----------------------------------------------------------------------------- building the real objects
def _ident(s, quote=None):
    if quote is None:
        return s
    from sqlalchemy.sql.elements import quoted_name
    return quoted_name(s, quote)


def _cn(n):
    from sqlalchemy.sql.elements import conv
    if n is None:
        return None
    if "conv" in n:
        return conv(n["conv"])
    return n["plain"]


def _default(d):
    import sqlalchemy as sa
    if d is None:
        return None
    if "str" in d:
        return d["str"]
    if "text" in d:
        return sa.text(d["text"])
    if "fetched" in d:
        return sa.FetchedValue()
    if "identity" in d:
        return sa.Identity(**{k: v for k, v in d["identity"].items() if v is not None or k == "always"})
    return sa.Computed(d["computed"], persisted=d["persisted"])


def _dclause(d):
    """server defaults as autogenerate hands them over: Column.server_default objects"""
    import sqlalchemy as sa
    x = _default(d)
    return x if isinstance(x, (sa.Computed, sa.Identity, sa.FetchedValue)) else sa.DefaultClause(x)


def _col(c, q=None):
    import sqlalchemy as sa
    kw = {"nullable": c["nullable"]}
    if c["autoinc"] is not None:
        kw["autoincrement"] = c["autoinc"]
    if c["system"]:
        kw["system"] = True
    if c["comment"] is not None:
        kw["comment"] = c["comment"]
    d = _default(c["default"])
    args = []
    if isinstance(d, (sa.Computed, sa.Identity)):
        args.append(d)
    elif d is not None:
        kw["server_default"] = d
    if c.get("key"):
        kw["key"] = c["key"]
    return sa.Column(_ident(c["name"], q), mk_type(c["type"]), *args, **kw)


def _refspec(k):
    rk = k.get("refkeys", {})       # the string spec of a ForeignKey names the referred column by its KEY
    return [(k["refschema"] + "." if k.get("refschema") else "") + k["reftable"] + "." + rk.get(rc, rc) for rc in k["refcols"]]


def _constraint(k, keys=None):
    """keys: database name -> Column.key of the owning table (SQLAlchemy constraints refer to columns by KEY)"""
    import sqlalchemy as sa
    keys = keys or {}
    k = dict(k, cols=[keys.get(n, n) for n in k.get("cols", [])])
    if k["k"] == "pk":
        return sa.PrimaryKeyConstraint(*k["cols"], name=_cn(k["name"]))
    if k["k"] == "fk":
        return sa.ForeignKeyConstraint(k["cols"], _refspec(k), name=_cn(k["name"]), onupdate=k["onupdate"], ondelete=k["ondelete"],
                                       initially=k["initially"], deferrable=k["deferrable"], use_alter=k["use_alter"], match=k["match"])
    if k["k"] == "uq":
        return sa.UniqueConstraint(*k["cols"], name=_cn(k["name"]), deferrable=k["deferrable"], initially=k["initially"])
    if k["k"] == "ck":
        return sa.CheckConstraint(sa.text(k["sql"]), name=_cn(k["name"]))
    raise ValueError(k)


def _metadata(nc):
    import sqlalchemy as sa
    return sa.MetaData(naming_convention=L.nc_of(nc)) if nc else sa.MetaData()


def _parents(m, cons):
    """the referred tables of foreign keys must exist in the MetaData for from_constraint"""
    import sqlalchemy as sa
    for k in cons:
        if k["k"] == "fk":
            key = (k.get("refschema") + "." if k.get("refschema") else "") + k["reftable"]
            if key not in m.tables:
                rk = k.get("refkeys", {})
                sa.Table(k["reftable"], m, *[sa.Column(rc, sa.Integer, key=rk[rc]) if rc in rk else sa.Column(rc, sa.Integer)
                                             for rc in dict.fromkeys(k["refcols"])], schema=k.get("refschema"))


def _table(t, nc, q=None):
    import sqlalchemy as sa
    kw = {}
    if t.get("comment") is not None:
        kw["comment"] = t["comment"]
    if t.get("prefixes"):
        kw["prefixes"] = list(t["prefixes"])
    m = _metadata(nc)
    keys = {c["name"]: c["key"] for c in t["cols"] if c.get("key")}
    tbl = sa.Table(_ident(t["name"], q), m, *[_col(c, q) for c in t["cols"]], *[_constraint(k, keys) for k in t["cons"]],
                   schema=t["schema"], **kw)
    _parents(m, t["cons"])
    return tbl


def _holder(tname, schema, nc, colnames, extra=(), parents=(), keys=None):
    """a table of the given name with the named columns, to hang an index / constraint on (as in autogenerate)"""
    import sqlalchemy as sa
    keys = keys or {}
    seen, cols = set(), []
    for n in colnames:
        if n not in seen:
            seen.add(n)
            cols.append(sa.Column(n, sa.Integer, key=keys[n]) if n in keys else sa.Column(n, sa.Integer))
    m = _metadata(nc)
    tbl = sa.Table(tname, m, *cols, *extra, schema=schema)
    _parents(m, parents)
    return tbl


def _tblop(o, tname, schema, nc, q=None):
    import sqlalchemy as sa
    from alembic.operations import ops
    k = o["k"]
    if k == "add_column":
        t = sa.Table(_ident(tname, q), _metadata(nc), _col(o["col"], q), schema=schema)
        return ops.AddColumnOp.from_column_and_tablename(schema, t.name, list(t.c)[0])
    if k == "drop_column":
        t = sa.Table(_ident(tname, q), _metadata(nc), _col(o["col"], q), schema=schema)
        return ops.DropColumnOp.from_column_and_tablename(schema, t.name, list(t.c)[0])
    if k == "alter_column":
        tri = lambda v, f: False if v == "keep" else (None if v == "none" else f(v["set"]))
        op = ops.AlterColumnOp(tname, o["col"], schema=schema,
                               existing_type=None if o["existing_type"] is None else mk_type(o["existing_type"]),
                               existing_server_default=_dclause(o["existing_server_default"]) if o["existing_server_default"] else False,
                               existing_nullable=o["existing_nullable"], existing_comment=o["existing_comment"])
        op.modify_server_default = tri(o["server_default"], _dclause)
        op.modify_name = o["new_name"]
        op.modify_type = None if o["type"] is None else mk_type(o["type"])
        op.modify_nullable = o["nullable"]
        op.modify_comment = tri(o["comment"], lambda x: x)
        if o["autoincrement"] is not None:
            op.kw["autoincrement"] = o["autoincrement"]
        return op
    if k in ("create_index", "drop_index"):
        cols = [e["col"] for e in o["exprs"] if "col" in e]
        keys = o.get("keys", {})
        t = _holder(tname, schema, nc, cols, keys=keys)
        exprs = [t.c[keys.get(e["col"], e["col"])] if "col" in e else sa.text(e["expr"]) if "expr" in e else
                 sa.literal_column(e["lit"]) if "lit" in e else sa.column(e["colclause"]) for e in o["exprs"]]
        ikw = dict(o.get("kw", {}))
        if "postgresql_where" in ikw:
            ikw["postgresql_where"] = sa.text(ikw["postgresql_where"])
        idx = sa.Index(_cn(o["name"]), *exprs, unique=o["unique"], _table=t, **ikw) if not cols else \
            sa.Index(_cn(o["name"]), *exprs, unique=o["unique"], **ikw)
        if k == "create_index":
            op = ops.CreateIndexOp.from_index(idx)
            op.if_not_exists = o["if_x"]
        else:
            op = ops.DropIndexOp.from_index(idx)
            op.if_exists = o["if_x"]
        return op
    if k == "create_unique":
        keys = o.get("keys", {})
        uq = sa.UniqueConstraint(*[keys.get(n, n) for n in o["cols"]], name=_cn(o["name"]), deferrable=o["deferrable"], initially=o["initially"])
        _holder(tname, schema, nc, o["cols"], [uq], keys=keys)
        return ops.AddConstraintOp.from_constraint(uq)
    if k == "create_fk":
        fk = _constraint(dict(o, k="fk"), o.get("keys", {}))
        _holder(tname, schema, nc, o["cols"], [fk], [dict(o, k="fk")], keys=o.get("keys", {}))
        return ops.AddConstraintOp.from_constraint(fk)
    if k == "drop_constraint":
        kk = _constraint(dict(o, k=o["ck"], refschema=None, onupdate=None, ondelete=None, initially=None, deferrable=None,
                              use_alter=False, match=None), o.get("keys", {}))
        _holder(tname, schema, nc, o["cols"], [kk], [dict(o, k=o["ck"], refschema=None)], keys=o.get("keys", {}))
        return ops.DropConstraintOp.from_constraint(kk)
    if k == "table_comment":
        return ops.CreateTableCommentOp(tname, o["comment"], existing_comment=o["existing"], schema=schema)
    if k == "drop_table_comment":
        return ops.DropTableCommentOp(tname, existing_comment=o["existing"], schema=schema)
    raise ValueError(k)


def build_ops(h):
    from alembic.operations import ops
    q = True if h.get("quote") else None
    out = []
    for o in h["ops"]:
        if o["k"] == "create_table":
            op = ops.CreateTableOp.from_table(_table(o["table"], h["nc"], q))
            op.if_not_exists = o["table"].get("if_not_exists")
            out.append(op)
        elif o["k"] == "drop_table":
            op = ops.DropTableOp.from_table(_table(o["table"], h["nc"], q))
            op.if_exists = o.get("if_exists")
            out.append(op)
        elif o["k"] == "modify":
            out.append(ops.ModifyTableOps(_ident(o["table"], q), [_tblop(m, o["table"], o["schema"], h["nc"], q) for m in o["ops"]],
                                          schema=o["schema"]))
        elif o["k"] == "top":
            out.append(_tblop(o["op"], o["table"], o["schema"], h["nc"], q))
        elif o["k"] == "execute":
            out.append(ops.ExecuteSQLOp(o["sql"]))
        else:
            raise ValueError(o["k"])
    return out


def build_b(h):
    """stream B: objects outside the modelled universe, compared at SQL level only"""
    import sqlalchemy as sa
    from sqlalchemy.dialects import postgresql
    from alembic.operations import ops
    n = h.get("names") or ["t", "c", "d", "e"]
    tn, c1, c2, c3 = n[0], n[1] + "1", n[2] + "2", n[3] + "3"
    m = _metadata(h["nc"])
    b = h["b"]
    if b == "identity":
        t = sa.Table(tn, m, sa.Column(c1, sa.Integer, sa.Identity(start=3, increment=2), primary_key=True), sa.Column(c2, sa.Integer))
        return [ops.CreateTableOp.from_table(t)]
    if b == "computed":
        t = sa.Table(tn, m, sa.Column(c1, sa.Integer), sa.Column(c2, sa.Integer, sa.Computed("1 + 2", persisted=True)))
        return [ops.CreateTableOp.from_table(t), ops.ModifyTableOps(tn, [ops.AddColumnOp.from_column_and_tablename(None, tn, t.c[c2])])]
    if b == "func_index":
        t = sa.Table(tn, m, sa.Column(c1, sa.String(10)), sa.Column(c2, sa.Integer))
        ix = sa.Index("ix_f", sa.func.lower(t.c[c1]), t.c[c2])
        return [ops.CreateIndexOp.from_index(ix)]
    if b == "lit_index":
        # bare literal_column() / column() (ColumnClause without a table) next to a table column and a DESC modifier
        t = sa.Table(tn, m, sa.Column(c1, sa.String(10)), sa.Column(c2, sa.Integer))
        ix = sa.Index("ix_lit", sa.literal_column("lower(code)"), t.c[c1], sa.column("plaincol"), t.c[c2].desc())
        return [ops.CreateIndexOp.from_index(ix), ops.DropIndexOp.from_index(ix)]
    if b == "cast_index":
        t = sa.Table(tn, m, sa.Column(c1, sa.String(10)), sa.Column(c2, sa.Integer))
        ix = sa.Index("ix_cast", sa.cast(t.c[c2], sa.String(5)), sa.func.coalesce(t.c[c1], "x"), sa.literal_column("code"))
        return [ops.CreateIndexOp.from_index(ix), ops.DropIndexOp.from_index(ix)]
    if b == "label_index":
        t = sa.Table(tn, m, sa.Column(c1, sa.String(10)))
        ix = sa.Index("ix_l", sa.func.lower(t.c[c1]).label("lbl"))
        return [ops.CreateIndexOp.from_index(ix)]
    if b == "pg_index_opts":
        t = sa.Table(tn, m, sa.Column(c1, sa.String(10)), sa.Column(c2, sa.Integer))
        ix = sa.Index("ix_p", t.c[c1], postgresql_using="gin", postgresql_where=sa.text("x > 0"), mysql_length=5)
        return [ops.CreateIndexOp.from_index(ix)]
    if b == "drop_index_opts":
        t = sa.Table(tn, m, sa.Column(c1, sa.String(10)))
        ix = sa.Index("ix_p", t.c[c1], postgresql_concurrently=True)
        return [ops.DropIndexOp.from_index(ix)]
    if b == "mysql_table_opts":
        t = sa.Table(tn, m, sa.Column(c1, sa.Integer), mysql_engine="InnoDB", mysql_charset="utf8", info={"k": "v"})
        return [ops.CreateTableOp.from_table(t)]
    if b == "bool_enum_constraints":
        t = sa.Table(tn, m, sa.Column(c1, sa.Boolean(create_constraint=True, name="ck_b")),
                     sa.Column(c2, sa.Enum("a", "b", name="en", create_constraint=True)))
        return [ops.CreateTableOp.from_table(t)]
    if b == "variant":
        t = sa.Table(tn, m, sa.Column(c1, sa.String(10).with_variant(sa.Text(), "postgresql")))
        return [ops.CreateTableOp.from_table(t)]
    if b == "array":
        t = sa.Table(tn, m, sa.Column(c1, sa.ARRAY(sa.Integer)), sa.Column(c2, postgresql.ARRAY(sa.String(5))))
        return [ops.CreateTableOp.from_table(t)]
    if b.startswith("pg_") and b not in ("pg_index_opts",) or b in ("mysql_types", "mssql_types", "oracle_types", "dialects_mixed"):
        from sqlalchemy.dialects import mysql, mssql, oracle
        pg = postgresql
        if b == "pg_array":
            cols = [pg.ARRAY(sa.Integer), pg.ARRAY(sa.String(5), dimensions=2), pg.ARRAY(pg.UUID())]
        elif b == "pg_jsonb":
            cols = [pg.JSONB(), pg.JSONB(astext_type=sa.Text(50))]
        elif b == "pg_json":
            cols = [pg.JSON(), pg.JSON(astext_type=sa.Text(50))]
        elif b == "pg_hstore":
            cols = [pg.HSTORE(), pg.HSTORE(text_type=sa.Text(50))]
        elif b == "pg_uuid_bytea":
            cols = [pg.UUID(), pg.BYTEA(), pg.INET(), pg.TIMESTAMP(timezone=True)]
        elif b == "pg_mixed":
            cols = [sa.Integer(), pg.ARRAY(pg.JSONB()), sa.String(10), pg.HSTORE(), pg.UUID(), pg.JSONB(), pg.BYTEA()]
        elif b == "mysql_types":
            cols = [mysql.TINYINT(1), mysql.MEDIUMTEXT(), mysql.INTEGER(unsigned=True), mysql.ENUM("a", "it's")]
        elif b == "mssql_types":
            cols = [mssql.MONEY(), mssql.NTEXT(), mssql.TINYINT()]
        elif b == "oracle_types":
            cols = [oracle.NUMBER(10, 2), oracle.VARCHAR2(20), oracle.RAW(16)]
        elif b == "dialects_mixed":
            # one table per dialect (each compiles on its own dialect only) in one operation list
            out = []
            for i, tys in enumerate([[pg.UUID(), pg.INET(), pg.BYTEA()], [mysql.TINYINT(1)], [mssql.MONEY()], [oracle.NUMBER(10, 2)],
                                     [sa.Integer(), sa.String(5)]]):
                tt = sa.Table("%s_%d" % (tn, i), m, *[sa.Column("%s_%d" % (c1, j), ty) for j, ty in enumerate(tys)])
                out.append(ops.CreateTableOp.from_table(tt))
            k = sum(map(ord, tn)) % len(out)
            return out[k:] + out[:k]
        elif b == "pg_alter_types":
            return [ops.ModifyTableOps(tn, [
                ops.AlterColumnOp(tn, c1, modify_type=pg.JSONB(), existing_type=pg.JSON(), existing_nullable=True),
                ops.AlterColumnOp(tn, c2, modify_type=pg.ARRAY(sa.Integer), existing_type=sa.Text(), existing_nullable=False)])]
        elif b == "pg_add_column":
            t = sa.Table(tn, m, sa.Column(c1, pg.ARRAY(sa.Integer)), sa.Column(c2, pg.HSTORE()))
            return [ops.ModifyTableOps(tn, [ops.AddColumnOp.from_column_and_tablename(None, tn, t.c[c1]),
                                            ops.AddColumnOp.from_column_and_tablename(None, tn, t.c[c2])])]
        else:
            raise ValueError(b)
        k = sum(map(ord, tn + c1)) % len(cols)          # alone (one column) and together, by the case's names
        chosen = [cols[k]] if sum(map(ord, c2)) % 2 else cols
        t = sa.Table(tn, m, *[sa.Column("%s_%d" % (c1, j), ty) for j, ty in enumerate(chosen)])
        return [ops.CreateTableOp.from_table(t)]
    if b == "fk_dotted_schema":
        # the referred table (and the table itself) in a dotted, two-part schema: otherdb.dbo
        sa.Table("parent", m, sa.Column("id", sa.Integer, primary_key=True), schema="otherdb.dbo")
        t = sa.Table(tn, m, sa.Column(c1, sa.Integer), sa.Column(c2, sa.Integer, sa.ForeignKey("otherdb.dbo.parent.id", ondelete="CASCADE")),
                     sa.ForeignKeyConstraint([c1], ["otherdb.dbo.parent.id"], name="fk_dotted"),
                     schema="mydb.dbo" if sum(map(ord, tn)) % 2 else None)
        return [ops.CreateTableOp.from_table(t)]
    if b == "col_unique_index_flags_table":
        t = sa.Table(tn, m, sa.Column(c1, sa.Integer, primary_key=True), sa.Column(c2, sa.Integer, unique=True),
                     sa.Column(c3, sa.Integer, index=True))
        return [ops.CreateTableOp.from_table(t)]
    if b == "fk_schema_nc":
        sa.Table("parent", m, sa.Column("id", sa.Integer, primary_key=True), schema="ps")
        t = sa.Table(tn, m, sa.Column(c1, sa.Integer, sa.ForeignKey("ps.parent.id", ondelete="CASCADE")), schema="cs")
        return [ops.CreateTableOp.from_table(t)]
    if b == "pct_default":
        t = sa.Table("t", m, sa.Column("c", sa.String(10), server_default=sa.text("'100%'")),
                     sa.CheckConstraint(sa.text("c like 'a%'"), name="ck1"))
        return [ops.CreateTableOp.from_table(t)]
    if b == "addcol_fk":
        sa.Table("parent", m, sa.Column("id", sa.Integer, primary_key=True))
        t = sa.Table("t", m, sa.Column("pid", sa.Integer, sa.ForeignKey("parent.id")))
        return [ops.ModifyTableOps("t", [ops.AddColumnOp.from_column_and_tablename(None, "t", t.c.pid)])]
    if b == "addcol_pk":
        t = sa.Table("t", m, sa.Column("id", sa.Integer, primary_key=True))
        return [ops.ModifyTableOps("t", [ops.AddColumnOp.from_column_and_tablename(None, "t", t.c.id)])]
    raise ValueError(b)


# stream B kinds with PostgreSQL types that wrap another type: under the migration context of ANOTHER dialect (no impl renderer)
# the inner type is rendered as a free name (registered finding C08-dialect-type-inner-type-unqualified); every kind runs under
# every context, and classify() recognises that finding by its signature (a NameError of the rendered text on non-PostgreSQL
# contexts only -- on PostgreSQL itself the text must run)
WRAPPING_KINDS = ("array", "pg_array", "pg_jsonb", "pg_json", "pg_hstore", "pg_mixed", "pg_alter_types", "pg_add_column")
B_DIALECTS = {}


# ----------------------------------------------------------------------------- one case
OPAQUE_IN = "(mkCfg [111;112] [115;97] false false, [TOpaque])"   # outside the modelled universe: no model statement


def run_case(h):
    import warnings
    from alembic.autogenerate import render_python_code
    from alembic.operations import ops
    warnings.simplefilter("ignore")
    cfg = h["cfg"]
    L.CURRENT_NC = int(h["nc"])
    real = build_b(h) if h["stream"] == "B" else build_ops(h)
    try:
        code, import_lines = L.render_with_imports(real, cfg)
    except Exception as e:       # the renderer itself raises: no valid Python was produced (class is the observable)
        out = {"code": None, "syntax_ok": False, "sql_same": False, "render_exception": type(e).__name__}
        if h["stream"] == "B":
            return dict(cin=OPAQUE_IN, cout="(mkOut None None false [])", out=out, nontrivial=False, shape="B:" + h["b"])
        absops = [L.canon_abs(L.a_top(o)) for o in real]
        return dict(cin="(%s, %s)" % (L.e_cfg(cfg, h["nc"]), L.lst(absops, L.e_top)), cout="(mkOut None None false [])", out=out,
                    nontrivial=False, shape="render-exception")
    try:
        compile("def f():\n" + code + "\n", "<rendered>", "exec")
        syntax_ok = True
    except SyntaxError:
        syntax_ok = False
    imps = L.import_names(import_lines)
    out = {"code": code if len(code) < 1500 else code[:1500] + "...", "syntax_ok": syntax_ok, "imports": import_lines}
    captured, same, details = (None, False, {})
    if syntax_ok:
        captured, same, details = L.run_both(code, cfg, real, h["nc"], per_dialect_render=(h["stream"] == "B" and not h.get("default_render")),
                                             imports=import_lines,
                                             dialects=h.get("dialects") or B_DIALECTS.get(h.get("b")) or L.DIALECTS)
    out["sql_same"] = same
    if details:
        out["sql_diff"] = details
    if h["stream"] == "B":
        # outside the modelled universe: only the decider speaks
        cout = "(mkOut %s None %s %s)" % ("(Some [])" if syntax_ok else "None", L.b(same), L.lst(imps, L.S))
        return dict(cin=OPAQUE_IN, cout=cout, out=out, nontrivial=syntax_ok, shape="B:" + h["b"],
                    can={"parsed": [] if syntax_ok else None, "ex": None, "same": same, "opaque": True, "imps": imps})
    absops = [L.canon_abs(L.a_top(o)) for o in real]
    cin = "(%s, %s)" % (L.e_cfg(cfg, h["nc"]), L.lst(absops, L.e_top))
    parsed = L.parse_code(code) if syntax_ok else None
    ex = None
    if captured is not None:
        ex = L.regroup(captured, cfg)
    cout = "(mkOut %s %s %s %s)" % (L.opt(parsed, lambda p: L.lst(p, L.e_stmt)), L.opt(ex, lambda e: L.lst(e, L.e_top)), L.b(same),
                                    L.lst(imps, L.S))
    kinds = set()
    for o in h["ops"]:
        if o["k"] == "modify":
            kinds |= {x["k"] for x in o["ops"]} or {"empty_modify"}
        else:
            kinds.add(o["op"]["k"] if o["k"] == "top" else o["k"])
        
    kinds = sorted(kinds)
    shape = "%s%s:%s" % ("batch" if cfg["batch"] else "plain", ["", "+nc", "+nc2"][int(h["nc"])], kinds[0] if len(kinds) == 1 else "mixed")
    return dict(cin=cin, cout=cout, out=out, nontrivial=bool(parsed) and captured is not None and len(captured) > 0, shape=shape,
                can={"parsed": parsed, "ex": ex, "same": same, "opaque": False, "imps": imps})


# ----------------------------------------------------------------------------- canaries
_DEFAULTS = {("unique", False), ("nullable", True), ("system", False)}


def _drop_kw(t):
    """the tree with the first keyword argument removed whose absence changes the call (not one that restates a default)"""
    if t[0] == "call":
        args = list(t[2])
        for i, a in enumerate(args):
            if a[0] == "kw" and a[2][0] != "none" and not (a[2][0] == "bool" and (a[1], a[2][1]) in _DEFAULTS):
                return ("call", t[1], args[:i] + args[i + 1:])
        for i, a in enumerate(args):
            sub = _drop_kw(a[2] if a[0] == "kw" else a)
            if sub is not None:
                return ("call", t[1], args[:i] + [("kw", a[1], sub) if a[0] == "kw" else sub] + args[i + 1:])
    if t[0] in ("list", "tuple"):
        for i, a in enumerate(t[1]):
            sub = _drop_kw(a)
            if sub is not None:
                return (t[0], t[1][:i] + [sub] + t[1][i + 1:])
    return None


def _alter_str(t):
    """the tree with one character of its first string literal changed"""
    if t[0] == "str":
        return ("str", ("X" if not t[1].startswith("X") else "Y") + t[1][1:]) if t[1] else ("str", "X")
    if t[0] == "call":
        for i, a in enumerate(t[2]):
            sub = _alter_str(a[2] if a[0] == "kw" else a)
            if sub is not None:
                return ("call", t[1], list(t[2][:i]) + [("kw", a[1], sub) if a[0] == "kw" else sub] + list(t[2][i + 1:]))
    if t[0] in ("list", "tuple"):
        for i, a in enumerate(t[1]):
            sub = _alter_str(a)
            if sub is not None:
                return (t[0], list(t[1][:i]) + [sub] + list(t[1][i + 1:]))
    return None


def _on_stmts(stmts, f):
    for i, st in enumerate(stmts):
        if st[0] == "expr":
            sub = f(st[1])
            if sub is not None:
                return stmts[:i] + [("expr", sub)] + stmts[i + 1:]
        else:
            sub = f(st[1])
            if sub is not None:
                return stmts[:i] + [("with", sub, st[2])] + stmts[i + 1:]
            for j, e in enumerate(st[2]):
                sub = f(e)
                if sub is not None:
                    return stmts[:i] + [("with", st[1], st[2][:j] + [sub] + st[2][j + 1:])] + stmts[i + 1:]
    return None


def canary(h, rec):
    """deliberately corrupted observations of this case; the decider must reject every one of them"""
    if rec.get("idx", 0) % 3:
        return []                                   # every third case: keeps the quick tier inside its time budget
    c = rec.get("can")
    if not c or not c["same"] or c["parsed"] is None:
        return []                                   # the decider fails on this case anyway
    def enc(parsed, same, imps=c.get("imps", [])):
        return "(mkOut %s %s %s %s)" % (L.opt(parsed, lambda p: L.lst(p, L.e_stmt)), L.opt(c["ex"], lambda e: L.lst(e, L.e_top)), L.b(same),
                                        L.lst(imps, L.S))
    out = [enc(None, True),                         # the text does not parse
           enc(c["parsed"], False)]                 # the two paths emit different SQL
    if not c["opaque"]:
        stmts = [tuple(x) if not isinstance(x, tuple) else x for x in c["parsed"]]
        for f in (_drop_kw, _alter_str):            # a keyword argument dropped / one character of a literal changed in the text
            bad = _on_stmts(list(stmts), f)
            if bad is not None:
                out.append(enc(bad, True))
        if c.get("imps"):                           # an import line that the text needs went missing
            out.append(enc(c["parsed"], True, c["imps"][1:]))
    return out


def classify(h, out):
    if h.get("finding"):
        return h["finding"]
    diff = (out or {}).get("sql_diff", {})
    if h.get("b") in WRAPPING_KINDS and diff and "postgresql" not in diff and all(v.get("rendered") == "NameError" for v in diff.values()):
        return "C08-dialect-type-inner-type-unqualified"
    if h.get("b") in ("func_index", "cast_index") and set((out or {}).get("sql_diff", {})) <= {"mysql"}:
        return "C08-mysql-functional-index-parens"
    if h.get("stream") == "B" and any("%" in n for n in h.get("names", [])):
        return "C08-percent-doubled-in-sql-expressions"
    return None
