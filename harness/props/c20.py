"""C20 — objects excluded by the autogenerate filters never appear in the output.
Real produce_migrations on SQLite with finite decision tables installed as include_object / include_name
vs Model.Filters.diff_f / calls_f (operations and the multiset of filter invocations)."""
import random

from harness import coqfmt as cf
from harness import c06_schema as S

PROP = "C20"
COQ = dict(imports=["Model.Schema", "Model.Diff", "Model.Filters", "Spec.C06", "Spec.C07", "Spec.C20"], in_ty="c20_in",
           out_ty="c20_out", corr="corr_C20", decide="check_C20", inclass="inclass_C20", model="model_C20")
THEOREMS = ["C20_object_filter", "C20_name_filter", "C20_conservative", "C20_decider_sound", "C20_model_holds"]
TRUSTED = [
    "reflect_sqlite / type catalogue / abstraction functions of harness/c06_schema.py, as for C06",
    "the harness' mapping of a filter invocation (object, name, type_, reflected, compare_to) / (name, type_, parent_names) to "
    "(kind, table, name, reflected, compare_to is not None); the theorems are about predicates over the full abstract objects",
]
ASSUME = [
    "schemas well formed as for C06; universe as for C06 (tables, columns, unique constraints, indexes, foreign keys: all five filter types)",
    "acc (the objects 'neither filter rejects'): the operation's own names are accepted, the include_object calls the unfiltered "
    "comparison makes for its table and object say yes, and - foreign keys being matched by signature - no reflected foreign key with "
    "the signature of an added key is name-rejected",
    "the theorems hold for ALL predicates include_object(object, reflected, compare_to) and include_name(name,type,parents) "
    "(Section variables); the correspondence samples predicates that are finite decision tables",
]
RULE = ("seeded random schema pairs as for C06 (B = A after 1-6 random changes) x random filter pairs: include_object is a decision "
        "table over (kind, table, name, reflected, compare_to is None) for the objects of A and B with ~20% rejections (sometimes default "
        "reject), include_name a table over reflected names with ~15% rejections (schema rejected in ~2%); both installed as real "
        "callables that also log every invocation. non-trivial = the unfiltered comparison yields an operation and at least one filter "
        "call returned False; distinct by the encoded case")
EXHAUSTIVE = {"quick": False, "thorough": False}
CASE_TIMEOUT = 60
DESIGN_REF = "DESIGN.md section 5 C20"
TECHNIQUE = ("Coq proof, parametric in both predicates (Section variables), that every operation of the filtered comparison was approved "
             "by include_object for its object and its table, that drops/alters only concern names include_name accepted, and that on "
             "objects neither filter rejects the filtered and unfiltered comparisons coincide; tied to the code by exact comparison of "
             "operations and of the multiset of filter invocations")
LEVEL_TEXT = ("Machine-checked theorems for all predicates and all well-formed schema pairs of the modelled universe about the "
              "transcription of the comparators with filter calls at the Python call sites; the transcription (operations and call "
              "sites) is compared exactly with the real code on SQLite on every run.")
LEVEL_NOTE = ("Partial: universe of C06, SQLite only; conservativity is membership-level (per operation), "
              "not list equality.")


def _refs(schemas):
    refs = set()
    for Sx in schemas:
        for t in Sx:
            refs.add(("t", t["name"]))
            for c in t["cols"]:
                refs.add(("c", t["name"], c[0]))
            for k in t["cons"]:
                refs.add(("u" if k[0] == "uq" else "i", t["name"], k[1]))
            for f in t.get("fks", []):
                refs.add(("f", t["name"], f[0]))
    return sorted(refs)


def gen_filter(rnd, A, B):
    refs = _refs([A, B])
    mode = rnd.choice(["object", "name", "both", "both"])
    pobj = rnd.choice([0.1, 0.2, 0.35]) if mode in ("object", "both") else 0.0
    pname = rnd.choice([0.1, 0.15, 0.3]) if mode in ("name", "both") else 0.0
    obj_d = not (mode != "name" and rnd.random() < 0.08)
    name_d = not (mode != "object" and rnd.random() < 0.05)
    obj = []
    for r in refs:
        if rnd.random() < 0.7:      # the same verdict whatever the flags
            v = rnd.random() >= pobj
            for refl in (False, True):
                for cmp_ in (False, True):
                    obj.append([list(r), refl, cmp_, v])
        else:
            for refl in (False, True):
                for cmp_ in (False, True):
                    obj.append([list(r), refl, cmp_, rnd.random() >= pobj])
    name = [[list(r), rnd.random() >= pname] for r in refs]
    if mode != "object" and rnd.random() < 0.03:
        name.append([["s"], False])
    rnd.shuffle(obj)
    return {"obj": obj, "obj_d": obj_d, "name": name, "name_d": name_d}


def _cases(rnd, n):
    for _ in range(n):
        A, B, desc = S.gen_pair(rnd)
        for _ in range(rnd.choice([1, 2])):
            B2, d = S.mutate(rnd, B)
            if B2 is not None and S.no_dangling(A, B2):
                B = B2
        yield {"A": A, "B": B, "f": gen_filter(rnd, A, B)}


def generate(tier, seed):
    rnd = random.Random(seed * 7919 + 20)
    yield from _cases(rnd, 600 if tier == "quick" else 12000)


def search(tier, seed):
    rnd = random.Random(seed * 104729 + 20)
    yield from _cases(rnd, 3000)


def q_ref(r):
    k = r[0]
    if k == "s": return "NSchema"
    if k == "t": return "(NTable %d)" % r[1]
    return "(%s %d %d)" % ({"c": "NColumn", "u": "NUq", "i": "NIx", "f": "NFk"}[k], r[1], r[2])


def q_filter(f):
    obj = cf.lst("((%s, %s, %s), %s)" % (q_ref(r), cf.boolean(a), cf.boolean(b), cf.boolean(v)) for r, a, b, v in f["obj"])
    name = cf.lst("(%s, %s)" % (q_ref(r), cf.boolean(v)) for r, v in f["name"])
    return "(mkFilt %s %s %s %s)" % (obj, cf.boolean(f["obj_d"]), name, cf.boolean(f["name_d"]))


def make_filters(f, log):
    otab = {(tuple(r), a, b): v for r, a, b, v in f["obj"]}
    ntab = {tuple(r): v for r, v in f["name"]}

    def oref(obj, name, type_):
        if type_ == "table":
            return ("t", S.un(name, "t"))
        tname = S.un(obj.table.name, "t")
        if type_ == "column":
            return ("c", tname, S.un(name, "c"))
        if type_ == "index":
            return ("i", tname, S.un(name, "k"))
        if type_ == "unique_constraint":
            return ("u", tname, S.un(name, "k"))
        if type_ == "foreign_key_constraint":
            return ("f", tname, S.un(name, "f"))
        raise AssertionError("unexpected filter type %r" % (type_,))

    def include_object(obj, name, type_, reflected, compare_to):
        r = oref(obj, name, type_)
        if obj.name != name:
            raise AssertionError("name argument differs from object.name")
        key = (r, bool(reflected), compare_to is not None)
        log.append(["o", list(r), key[1], key[2]])
        return otab.get(key, f["obj_d"])

    def include_name(name, type_, parents):
        if type_ == "schema":
            if name is not None: raise AssertionError("schema name")
            r = ("s",)
        elif type_ == "table":
            r = ("t", S.un(name, "t"))
        else:
            tname = S.un(parents["table_name"], "t")
            r = ({"column": "c", "index": "i", "unique_constraint": "u", "foreign_key_constraint": "f"}[type_], tname,
                 S.un(name, {"column": "c", "foreign_key_constraint": "f"}.get(type_, "k")))
        log.append(["n", list(r)])
        return ntab.get(r, f["name_d"])

    return include_object, include_name


def run_case(h):
    S.quiet_logs()
    A, B, f = h["A"], h["B"], h["f"]
    mdB = S.build_metadata(B)
    e = S.fresh_db(A)
    log = []
    try:
        with e.connect() as conn:
            _, ms0 = S.compare(conn, mdB, (True, True))
            plain = S.abs_ops(ms0.upgrade_ops, conn.dialect)
            io, iname = make_filters(f, log)
            _, ms1 = S.compare(conn, S.build_metadata(B), (True, True), include_object=io, include_name=iname)
            filt = S.abs_ops(ms1.upgrade_ops, conn.dialect)
    finally:
        e.dispose()
    qcalls = cf.lst(("(TN %s)" % q_ref(c[1])) if c[0] == "n" else "(TO %s %s %s)" % (q_ref(c[1]), cf.boolean(c[2]), cf.boolean(c[3]))
                    for c in log)
    cin = "(%s, %s, %s)" % (S.q_schema(A), S.q_schema(B), q_filter(f))
    cout = "(mkOut20 %s %s %s)" % (S.q_ops(filt), S.q_ops(plain), qcalls)
    otab = {(tuple(r), a, b): v for r, a, b, v in f["obj"]}
    ntab = {tuple(r): v for r, v in f["name"]}
    rejected = any((not otab.get((tuple(c[1]), c[2], c[3]), f["obj_d"])) if c[0] == "o" else (not ntab.get(tuple(c[1]), f["name_d"]))
                   for c in log)
    shape = "%s-%s" % ("diff" if plain else "nodiff", "same" if sorted(map(str, plain)) == sorted(map(str, filt)) else "changed")
    return dict(cin=cin, cout=cout, out={"filtered": filt, "plain": plain, "calls": len(log)},
                nontrivial=bool(plain) and rejected, shape=shape)


def classify(human, out):
    return None
