"""C20 — objects excluded by the autogenerate filters never appear in the output.
Real produce_migrations on SQLite with finite decision tables installed as include_object / include_name
vs Model.Filters.diff_f / calls_f (operations and the multiset of filter invocations)."""
import random

from harness import coqfmt as cf
from harness import c06_schema as S

PROP = "C20"
COQ = dict(imports=["Model.Schema", "Model.Diff", "Model.Filters", "Spec.C06", "Spec.C07", "Spec.C20"], in_ty="c20_in",
           out_ty="c20_out", corr="corr_C20", decide="check_C20", inclass="inclass_C20", model="model_C20")
THEOREMS = ["C20_object_filter", "C20_name_filter", "C20_conservative", "C20_name_absent", "C20_decider_sound", "C20_model_holds"]
TRUSTED = [
    "reflect_sqlite / type catalogue / abstraction functions of harness/c06_schema.py, as for C06",
    "the harness' mapping of a filter invocation (object, name, type_, reflected, compare_to) / (name, type_, parent_names) to "
    "(kind, table, name, reflected, compare_to is not None); the theorems are about predicates over the full abstract objects",
]
ASSUME = [
    "schemas well formed as for C06; universe as for C06 (tables, columns, unique constraints, indexes, foreign keys: all five filter "
    "types) plus UNNAMED foreign keys and UNNAMED unique constraints (name None: the unnamed_metadata_uniques / conn_uniques_by_sig "
    "branch), tables in ATTACHed databases seen as schemas with include_schemas=True (schema name filter, schema-qualified parent "
    "names); CHECK constraints and expression indexes decorate some schemas and must stay invisible",
    "C20_conservative assumes the metadata has no unnamed unique constraint; outside, the decider and the exact correspondence speak",
    "the decider (C20_holds) also requires every include_name call of the specification to be observed and the filtered operations to be "
    "those of the specification diff_f; C20_name_absent says what diff_f is without an object filter: the plain comparison of the "
    "database with the name-rejected objects removed",
    "acc (the objects 'neither filter rejects'): the operation's own names are accepted, the include_object calls the unfiltered "
    "comparison makes for its table and object say yes, and - foreign keys being matched by signature - no reflected foreign key with "
    "the signature of an added key is name-rejected",
    "configuration: the filters of a run are a function of the LAST configure() call only (effective_filt); when that call passes no "
    "filters the specification is the plain comparison and the expected trace is empty (fl_none)",
    "the theorems hold for ALL predicates include_object(object, reflected, compare_to) and include_name(name,type,parents) "
    "(Section variables); the correspondence samples predicates that are finite decision tables",
]
RULE = ("seeded random schema pairs as for C06 (B = A after 1-6 random changes) x random filter pairs: include_object is a decision "
        "table over (kind, table, name, reflected, compare_to is None) for the objects of A and B with ~20% rejections (sometimes default "
        "reject), include_name a table over reflected names with ~15% rejections (schema rejected in ~2%); both installed as real "
        "callables that also log every invocation (with a digest of the object and of compare_to); in half of the cases 1-2 content rules (reject a table that has column X / a reflected table with an index / a table with a foreign key / a column of type family F / an index or unique constraint over column X / a foreign key to table T / when compare_to has column X) are added, and in half of the cases about half of the foreign keys are declared without a name (reflected with name None; include_name then sees (None, foreign_key_constraint, parent table)). include_object is keyed on its NAME argument (a schema-qualified or otherwise wrong name is a question nobody is expected to ask, and asserts name == object.name). In a quarter of the cases the comparison goes through ONE EnvironmentContext configured twice (filters then none / none then filters / other filters then these): the filters in force must be those of the last configure() call, and with none installed no callable may be called. non-trivial = the unfiltered comparison yields an operation and at least one filter "
        "call returned False; distinct by the encoded case")
EXHAUSTIVE = {"quick": False, "thorough": False}
CASE_TIMEOUT = 60
DESIGN_REF = "DESIGN.md section 5 C20"
TECHNIQUE = ("Coq proof, parametric in both predicates (Section variables), that every operation of the filtered comparison was approved "
             "by include_object for its object and its table, that drops/alters only concern names include_name accepted, and that on "
             "objects neither filter rejects the filtered and unfiltered comparisons coincide; tied to the code by exact comparison of "
             "operations and of the multiset of filter invocations")
LEVEL_TEXT = ("Machine-checked theorems for all predicates and all well-formed schema pairs of the modelled universe about the "
              "transcription of the comparators with filter calls at the Python call sites; the transcription (operations and call "
              "sites) is compared exactly with the real code on SQLite on every run.")
LEVEL_NOTE = ("Partial: universe of C06, SQLite only; conservativity is membership-level (per operation), "
              "not list equality.")


def _refs(schemas):
    refs = set()
    for Sx in schemas:
        for t in Sx:
            refs.add(("t", t["name"]))
            for c in t["cols"]:
                refs.add(("c", t["name"], c[0]))
            for k in t["cons"]:
                refs.add(("u" if k[0] == "uq" else "i", t["name"], k[1]))
            for f in t.get("fks", []):
                refs.add(("f", t["name"], f[0]) if S.fk_named(f) else ("g", t["name"]))
            if t.get("uuqs"):
                refs.add(("v", t["name"]))
    return sorted(refs)


def gen_filter(rnd, A, B, attached=()):
    refs = _refs([A, B]) + [("S", i) for i in attached]
    mode = rnd.choice(["object", "name", "both", "both"])
    pobj = rnd.choice([0.1, 0.2, 0.35]) if mode in ("object", "both") else 0.0
    pname = rnd.choice([0.1, 0.15, 0.3]) if mode in ("name", "both") else 0.0
    obj_d = not (mode != "name" and rnd.random() < 0.08)
    name_d = not (mode != "object" and rnd.random() < 0.05)
    obj = []
    for r in refs:
        if rnd.random() < 0.7:      # the same verdict whatever the flags
            v = rnd.random() >= pobj
            for refl in (False, True):
                for cmp_ in (False, True):
                    obj.append([list(r), refl, cmp_, v])
        else:
            for refl in (False, True):
                for cmp_ in (False, True):
                    obj.append([list(r), refl, cmp_, rnd.random() >= pobj])
    # unnamed foreign keys can only be told apart by (type_, parent table): reject them more often
    name = [[list(r), rnd.random() >= (max(pname, 0.4) if (r[0] in ("g", "v") and pname > 0) else pname)] for r in refs]
    if mode != "object" and rnd.random() < 0.03:
        name.append([["s"], False])
    rnd.shuffle(obj)
    # content rules: predicates that look inside the object (and inside compare_to)
    rules = []
    if rnd.random() < 0.5:
        cols = sorted({c[0] for Sx in (A, B) for t in Sx for c in t["cols"] if c[0] != 0})
        tabs = sorted({t["name"] for Sx in (A, B) for t in Sx})
        fams = sorted({c[1] for Sx in (A, B) for t in Sx for c in t["cols"]})
        for _ in range(rnd.choice([1, 1, 2])):
            k = rnd.choice(["tab_has_col", "tab_has_col", "refl_tab_has_ix", "tab_has_fk", "col_fam", "cons_on_col", "fk_to", "cmp_tab_has_col"])
            if k in ("tab_has_col", "cons_on_col", "cmp_tab_has_col"):
                if cols: rules.append([k, rnd.choice(cols)])
            elif k == "col_fam":
                rules.append([k, rnd.choice(fams)])
            elif k == "fk_to":
                rules.append([k, rnd.choice(tabs)])
            else:
                rules.append([k])
    return {"obj": obj, "obj_d": obj_d, "name": name, "name_d": name_d, "rules": rules, "attached": list(attached)}


def _cases(rnd, n):
    for _ in range(n):
        A, B, desc = S.gen_pair(rnd)
        for _ in range(rnd.choice([1, 2])):
            B2, d = S.mutate(rnd, B)
            if B2 is not None and S.no_dangling(A, B2):
                B = B2
        if rnd.random() < 0.3:          # generated columns (same column in A and B, nullability / explicitness may differ)
            import copy
            A, B = copy.deepcopy(A), copy.deepcopy(B)
            tb = {t["name"]: t for t in B}
            for t in A:
                if rnd.random() < 0.6:
                    n = max([c[0] for c in t["cols"]] + [c[0] for c in tb.get(t["name"], {"cols": []})["cols"]]) + 1
                    nl = rnd.random() < 0.6
                    col = [n, 0, [], nl, False, list(rnd.choice(S.COMPUTED)), not (nl and rnd.random() < 0.5)]
                    t["cols"].append(col)
                    if t["name"] in tb:
                        c2 = list(col)
                        if rnd.random() < 0.5:
                            c2[3], c2[6] = not c2[3], (True if c2[3] else rnd.random() < 0.5)
                            if not c2[6]: c2[3] = True
                        tb[t["name"]]["cols"].append(c2)
        if rnd.random() < 0.5:          # some foreign keys are declared without a name (reflected with name None on SQLite)
            import copy
            A, B = copy.deepcopy(A), copy.deepcopy(B)
            for Sx in (A, B):
                for t in Sx:
                    for fk in t["fks"]:
                        if rnd.random() < 0.5:
                            while len(fk) < 6: fk.append([None, None, None, None] if len(fk) == 4 else True)
                            fk[5] = False
        if rnd.random() < 0.3:          # CHECK constraints / expression indexes (outside the model, never filtered, never compared)
            import copy
            A, B = copy.deepcopy(A), copy.deepcopy(B)
            S.decorate(rnd, A); S.decorate(rnd, B)
        if rnd.random() < 0.35:         # unnamed unique constraints (reflected with name None; matched by column signature)
            import copy
            A, B = copy.deepcopy(A), copy.deepcopy(B)
            for Sx in (A, B):
                for t in Sx:
                    t["uuqs"] = []
            tb = {t["name"]: t for t in B}
            for t in A:
                for side in ([t, tb.get(t["name"])] if rnd.random() < 0.6 else [rnd.choice([t, tb.get(t["name"])])]):
                    if side is None or rnd.random() < 0.4: continue
                    names = [c[0] for c in side["cols"] if not (c[5] is not None and c[5][0] == "comp")]
                    cs = sorted(rnd.sample(names, rnd.randint(1, min(2, len(names)))))
                    taken = [frozenset(k[2]) for k in side["cons"]] + [frozenset(u[1]) for u in side["uuqs"]]
                    if frozenset(cs) in taken and rnd.random() < 0.7: continue      # sometimes keep: the named constraint of the other side's signature
                    if frozenset(cs) in taken: continue
                    side["uuqs"].append([900 + len(side["uuqs"]), cs])
            # the skip rule: an unnamed metadata constraint with the signature of a NAMED reflected one
            for t in A:
                m = tb.get(t["name"])
                uqs = [k for k in t["cons"] if k[0] == "uq"]
                if m is not None and uqs and rnd.random() < 0.3:
                    k = rnd.choice(uqs)
                    if all(frozenset(x[2]) != frozenset(k[2]) for x in m["cons"]) and all(frozenset(u[1]) != frozenset(k[2]) for u in m["uuqs"]) \
                            and set(k[2]) <= {c[0] for c in m["cols"]}:
                        m["uuqs"].append([950, sorted(k[2])])
        attached = []
        if rnd.random() < 0.35:         # ATTACHed databases seen as schemas (include_schemas=True): table code = 100 * schema + name
            import copy
            A, B = copy.deepcopy(A), copy.deepcopy(B)
            attached = rnd.choice([[1], [1, 2], [1, 2]])
            for i in attached:
                for _ in range(rnd.choice([0, 1, 1, 2])):
                    code = 100 * i + rnd.randrange(4)
                    if any(t["name"] == code for t in A + B): continue
                    t = S.gen_table(rnd, code, code * 10)
                    for c in t["cols"]: c[5] = None if (c[5] is not None and c[5][0] == "expr") else c[5]
                    where = rnd.choice(["A", "B", "AB", "AB"])
                    if "A" in where: A.append(copy.deepcopy(t))
                    if "B" in where:
                        t2 = copy.deepcopy(t)
                        if where == "AB" and rnd.random() < 0.6:
                            t2["cols"].append([9, 0, [], True, False, None])
                        B.append(t2)
            # foreign keys between tables of one ATTACHed schema (reflected with referred_schema = that schema)
            for i in attached:
                for _ in range(rnd.choice([0, 1, 1, 2])):
                    both = [t["name"] for t in A if t["name"] // 100 == i]
                    allc = sorted({t["name"] for t in A + B if t["name"] // 100 == i})
                    if not allc: continue
                    src, dst = rnd.choice(allc), rnd.choice(allc)
                    name = src * 10 + 5 + rnd.randrange(3)
                    for Sx in (A, B):
                        ts = {t["name"]: t for t in Sx}
                        if src in ts and dst in ts and rnd.random() < 0.8:
                            cols = [c[0] for c in ts[src]["cols"] if not (c[5] is not None and c[5][0] == "comp")]
                            fk = [name, [min(cols) if src == dst else cols[name % len(cols)]], dst, [0], [None, None, None, None], True]
                            if all(f[0] != name and sorted(f[1]) != sorted(fk[1]) for f in ts[src]["fks"]):
                                ts[src]["fks"].append(fk)
        h = {"A": A, "B": B, "f": gen_filter(rnd, A, B, attached)}
        if rnd.random() < 0.25:         # one EnvironmentContext configured twice (multidb env.py): the last call decides
            shape = rnd.choice(["filters_then_none", "none_then_filters", "two_filters"])
            other = gen_filter(rnd, A, B, attached)
            if shape == "filters_then_none":
                h["configs"] = [other, None]
                h["f"] = {"obj": [], "obj_d": True, "name": [], "name_d": True, "rules": [], "attached": list(attached)}
            elif shape == "none_then_filters":
                h["configs"] = [None, h["f"]]
            else:
                h["configs"] = [other, h["f"]]
        yield h


def generate(tier, seed):
    rnd = random.Random(seed * 7919 + 20)
    yield from _cases(rnd, 520 if tier == "quick" else 12000)


def search(tier, seed):
    rnd = random.Random(seed * 104729 + 20)
    yield from _cases(rnd, 3000)


def q_ref(r):
    k = r[0]
    if k == "s": return "NSchema"
    if k == "t": return "(NTable %d)" % r[1]
    if k == "g": return "(NFkU %d)" % r[1]
    if k == "S": return "(NSchemaN %d)" % r[1]
    if k == "v": return "(NUqU %d)" % r[1]
    return "(%s %d %d)" % ({"c": "NColumn", "u": "NUq", "i": "NIx", "f": "NFk"}[k], r[1], r[2])


def q_filter(f):
    obj = cf.lst("((%s, %s, %s), %s)" % (q_ref(r), cf.boolean(a), cf.boolean(b), cf.boolean(v)) for r, a, b, v in f["obj"])
    name = cf.lst("(%s, %s)" % (q_ref(r), cf.boolean(v)) for r, v in f["name"])
    return "(mkFilt %s %s %s %s %s %s false)" % (obj, cf.boolean(f["obj_d"]), name, cf.boolean(f["name_d"]), cf.lst(q_rule(r) for r in f.get("rules", [])),
                                              cf.nlist(f.get("attached", [])))


def q_rule(r):
    k = r[0]
    if k == "tab_has_col": return "(RTabHasCol %d)" % r[1]
    if k == "refl_tab_has_ix": return "RReflTabHasIx"
    if k == "tab_has_fk": return "RTabHasFk"
    if k == "col_fam": return "(RColFam %d)" % r[1]
    if k == "cons_on_col": return "(RConsOnCol %d)" % r[1]
    if k == "fk_to": return "(RFkTo %d)" % r[1]
    if k == "cmp_tab_has_col": return "(RCmpTabHasCol %d)" % r[1]
    raise AssertionError(k)


def digest(obj, type_):
    """what the filter can read off the object it is handed (mirrors Filters.v obj_digest)"""
    import sqlalchemy as sa
    from sqlalchemy.dialects import sqlite
    if obj is None: return []
    if type_ == "table":
        from alembic.util import sqla_compat
        plain_ix = [i for i in obj.indexes if not sqla_compat.is_expression_index(i)]      # expression indexes are decoration
        return [S.un(c.name, "c") for c in obj.c] + [len(plain_ix), len(obj.foreign_key_constraints)]
    if type_ == "column":
        return [S.abs_type(obj.type, sqlite.dialect())[0], 1 if obj.nullable else 0]
    if type_ in ("index", "unique_constraint"):
        return [S.un(c.name, "c") for c in obj.columns]
    if type_ == "foreign_key_constraint":
        f = S.abs_fk_of_constraint_any(obj)
        return f[1] + [f[2]] + f[3]
    raise AssertionError(type_)


def rule_rejects(r, obj, type_, reflected, compare_to):
    import sqlalchemy as sa
    k = r[0]
    if k == "tab_has_col": return type_ == "table" and S.cn(r[1]) in obj.c
    if k == "refl_tab_has_ix": return bool(reflected) and type_ == "table" and digest(obj, type_)[-2] > 0
    if k == "tab_has_fk": return type_ == "table" and len(obj.foreign_key_constraints) > 0
    if k == "col_fam": return type_ == "column" and digest(obj, type_)[0] == r[1]
    if k == "cons_on_col": return type_ in ("index", "unique_constraint") and r[1] in digest(obj, type_)
    if k == "fk_to": return type_ == "foreign_key_constraint" and S.abs_fk_of_constraint_any(obj)[2] == r[1]
    if k == "cmp_tab_has_col": return isinstance(compare_to, sa.Table) and S.cn(r[1]) in compare_to.c
    raise AssertionError(k)


def make_filters(f, log):
    otab = {(tuple(r), a, b): v for r, a, b, v in f["obj"]}
    ntab = {tuple(r): v for r, v in f["name"]}

    def oref(obj, name, type_):
        if type_ == "table":
            return ("t", S.tcode(name, obj.schema))
        tname = S.tcode(obj.table.name, obj.table.schema)
        if type_ == "column":
            return ("c", tname, S.un(name, "c"))
        if type_ == "index":
            return ("i", tname, S.un(name, "k"))
        if type_ == "unique_constraint":
            return ("v", tname) if name is None else ("u", tname, S.un(name, "k"))
        if type_ == "foreign_key_constraint":
            return ("g", tname) if name is None else ("f", tname, S.un(name, "f"))
        raise AssertionError("unexpected filter type %r" % (type_,))

    def include_object(obj, name, type_, reflected, compare_to):
        # the predicate is keyed on the NAME it is handed (as a user's include_object is): a name that is not the object's own bare
        # name (e.g. a schema-qualified "s1.t3") is an object the decision table does not know - observable, not a harness error
        try:
            r = oref(obj, name, type_)
            if obj.name != name: raise AssertionError("name argument differs from object.name")
        except AssertionError:
            r = ("t", 9999)
        key = (r, bool(reflected), compare_to is not None)
        log.append(["o", list(r), key[1], key[2], digest(obj, type_), digest(compare_to, type_)])
        return otab.get(key, f["obj_d"]) and not any(rule_rejects(x, obj, type_, reflected, compare_to) for x in f.get("rules", []))

    def include_name(name, type_, parents):
        if type_ == "schema":
            if parents: raise AssertionError("parent names of a schema")
            r = ("s",) if name is None else ("S", S.un(name, "s"))
        elif type_ == "table":
            want = name if not parents["schema_name"] else "%s.%s" % (parents["schema_name"], name)
            if parents.get("schema_qualified_table_name") != want: raise AssertionError("schema_qualified_table_name")
            r = ("t", S.tcode(name, parents["schema_name"]))
        else:
            tname = S.tcode(parents["table_name"], parents["schema_name"])
            if type_ in ("foreign_key_constraint", "unique_constraint") and name is None:
                r = ("g", tname) if type_ == "foreign_key_constraint" else ("v", tname)
                log.append(["n", list(r)])
                return ntab.get(r, f["name_d"])
            r = ({"column": "c", "index": "i", "unique_constraint": "u", "foreign_key_constraint": "f"}[type_], tname,
                 S.un(name, {"column": "c", "foreign_key_constraint": "f"}.get(type_, "k")))
        log.append(["n", list(r)])
        return ntab.get(r, f["name_d"])

    return include_object, include_name


def _q_calls(log):
    return cf.lst(("(TN %s)" % q_ref(c[1])) if c[0] == "n" else
                  "(TO %s %s %s %s %s)" % (q_ref(c[1]), cf.boolean(c[2]), cf.boolean(c[3]), cf.nlist(c[4]), cf.nlist(c[5])) for c in log)


def canary(human, rec):
    """corrupted observations the decider must reject: an operation lost, an operation reported twice, the filters ignored
    (the unfiltered result), an operation nobody would report without filters, every call of one name-filter question missing"""
    out = rec.get("out") or {}
    if "trace" not in out:
        return []
    filt, plain, log = out["filtered"], out["plain"], out["trace"]
    mk = lambda f, l: "(mkOut20 %s %s %s)" % (S.q_ops(f), S.q_ops(plain), _q_calls(l))
    bad = []
    if filt:
        bad += [mk(filt[1:], log), mk(filt + filt[:1], log)]
    def norm(op):       # the constraints of a create_table are a set
        if op[0] == "create_table":
            t = op[1]
            return str([op[0], dict(t, cons=sorted(map(str, t["cons"])), fks=sorted(map(str, t["fks"])), uuqs=sorted(map(str, t.get("uuqs", []))))])
        return str(op)
    if sorted(map(norm, filt)) != sorted(map(norm, plain)):
        bad.append(mk(plain, log))
    bad.append(mk(filt + [["drop_table", 9999]], log))
    names = [c for c in log if c[0] == "n"]
    if names:
        gone = names[len(names) // 2][1]
        bad.append(mk(filt, [c for c in log if not (c[0] == "n" and c[1] == gone)]))
    return bad


def run_case(h):
    S.quiet_logs()
    A, B, f = h["A"], h["B"], h["f"]
    mdB = S.build_metadata(B)
    e = S.fresh_db(A, f.get("attached", []))
    log = []
    try:
        with e.connect() as conn:
            _, ms0 = S.compare(conn, mdB, (True, True), include_schemas=True)
            plain = S.abs_ops(ms0.upgrade_ops, conn.dialect, A, B)
            if "configs" in h:
                from alembic.config import Config
                from alembic.runtime.environment import EnvironmentContext
                from alembic.autogenerate import produce_migrations
                env = EnvironmentContext(Config(), None)
                md1 = S.build_metadata(B)
                for c in h["configs"]:
                    kw = {}
                    if c is not None:      # every callable logs into the same trace: a filter kept from an earlier call is observed
                        kw["include_object"], kw["include_name"] = make_filters(c, log)
                    env.configure(connection=conn, target_metadata=md1, compare_type=True, compare_server_default=True,
                                  include_schemas=True, **kw)
                ms1 = produce_migrations(env.get_context(), md1)
            else:
                io, iname = make_filters(f, log)
                _, ms1 = S.compare(conn, S.build_metadata(B), (True, True), include_object=io, include_name=iname, include_schemas=True)
            filt = S.abs_ops(ms1.upgrade_ops, conn.dialect, A, B)
    finally:
        e.dispose()
    qcalls = _q_calls(log)
    if "configs" in h:
        qf = "(effective_filt %s %s)" % (cf.lst("None" if c is None else "(Some %s)" % q_filter(c) for c in h["configs"]),
                                        cf.nlist(f.get("attached", [])))
    else:
        qf = q_filter(f)
    cin = "(%s, %s, %s)" % (S.q_schema(A), S.q_schema(B), qf)
    cout = "(mkOut20 %s %s %s)" % (S.q_ops(filt), S.q_ops(plain), qcalls)
    otab = {(tuple(r), a, b): v for r, a, b, v in f["obj"]}
    ntab = {tuple(r): v for r, v in f["name"]}
    rejected = any((not otab.get((tuple(c[1]), c[2], c[3]), f["obj_d"])) if c[0] == "o" else (not ntab.get(tuple(c[1]), f["name_d"]))
                   for c in log)
    shape = "%s-%s" % ("diff" if plain else "nodiff", "same" if sorted(map(str, plain)) == sorted(map(str, filt)) else "changed")
    return dict(cin=cin, cout=cout, out={"filtered": filt, "plain": plain, "calls": len(log), "trace": [list(c) for c in log]},
                nontrivial=bool(plain) and rejected, shape=shape)


def classify(human, out):
    return None
