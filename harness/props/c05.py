"""C05 — stamp: the REAL ScriptDirectory._stamp_revs + MigrationContext.run_migrations/HeadMaintainer on SQLite
vs Model.Stamp.stamp."""
import itertools
import random

from harness import coqfmt as cf
from harness.props import c03 as base

PROP = "C05"
COQ = dict(imports=["Model.Heads", "Model.Stamp", "Spec.C05"], in_ty="c05_in", out_ty="c05_out",
           corr="corr_C05", decide="check_C05", model="model_C05")
THEOREMS = ["C05_decider_sound", "C05_single_target", "C05_base", "C05_purge", "C05_multi_refuted", "C05_multi_partial",
            "C05_multi_partial_class"]
TRUSTED = [
    "SQLite + SQLAlchemy execute the three bookkeeping statements as the list model says; matched-row counts are observed",
    "the revision graph is given to the model already loaded; `heads` is given as the observed order of RevisionMap._real_heads "
    "(the model checks that it is a permutation of the real heads); rows are given in the order SELECT returns them",
    "targets are full revision ids, `base` or `heads`; partial ids, branch labels (label@head) and relative targets are "
    "resolved by code that belongs to C16 and are not part of this model",
]
ASSUME = [
    "wf_refs G, no directed cycle, r_ndeps as computed by _normalize_depends_on",
    "the state H is a duplicate-free antichain of revisions of G (every state reachable by upgrade/downgrade, property C03)",
    "C05_multi_partial: at most one target shares lineage with a row of the table; outside it the real code deviates "
    "(known finding C05-multi-target-stamp, C05_multi_refuted)",
]
RULE = ("quick: EVERY history of <=4 revisions (topological load order, each earlier revision absent / down_revision / depends_on "
        "of each later one) x EVERY antichain state H x targets {each id, base, heads, every unordered pair of ids (pairs on 4 revisions: every second history in quick, "
        "all in thorough)}, without --purge; with --purge for every history, every target and the largest state; seeded random histories of 5-10 revisions "
        "x random antichain states x random targets (single, pairs, triples, heads, base) x purge. thorough adds ordered pairs, "
        "triples on <=4 revisions, the reversed load order and 10x the random cases. Compared exactly: the StampSteps returned by "
        "_stamp_revs (from_, to_, is_upgrade, branch_move), after every step the rows (multiset) and every statement with its "
        "matched-row count, the exception class. non-trivial = at least one step ran")
EXHAUSTIVE = {"quick": True, "thorough": True}
CASE_TIMEOUT = 60

# ----------------------------------------------------------------------------- generators

def targets(n, ordered=False, triples=False):
    out = [["r%d" % i] for i in range(n)] + [["base"], ["heads"]]
    pairs = itertools.permutations(range(n), 2) if ordered else itertools.combinations(range(n), 2)
    out += [["r%d" % a, "r%d" % b] for a, b in pairs]
    if triples:
        out += [["r%d" % a, "r%d" % b, "r%d" % c] for a, b, c in itertools.combinations(range(n), 3)]
    return out


def exhaustive(n, ordered=False, triples=False, rev_order=False, half_multi=False):
    """half_multi: several-id targets only for every second history (the single/base/heads targets stay exhaustive)"""
    for k, (down, deps) in enumerate(base.topo_graphs(n)):
        g = base._g(n, down, deps, list(range(n))[::-1] if rev_order else None)
        acs = list(base.antichains(n, down, deps))
        tg = [t for t in targets(n, ordered, triples) if len(t) == 1 or not half_multi or k % 2 == 0]
        for H in acs:
            for t in tg:
                yield {"g": g, "rows": H, "target": t, "purge": False, "kind": "exh-n%d" % n}
        for t in tg:
            yield {"g": g, "rows": max(acs, key=len), "target": t, "purge": True, "kind": "exh-purge-n%d" % n}


def random_cases(rnd, count):
    for _ in range(count):
        n = rnd.randint(5, 10)
        down, deps = base.rand_dag(rnd, n)
        g = base._g(n, down, deps)
        par = {i: set(down.get(i, ())) | set(deps.get(i, ())) for i in range(n)}
        cl = {i: base._closure(par, [i]) for i in range(n)}
        order = list(range(n))
        rnd.shuffle(order)
        H = []
        for x in order:                       # a random antichain
            if rnd.random() < 0.6 and all(x not in cl[h] and h not in cl[x] for h in H):
                H.append(x)
        k = rnd.random()
        if k < 0.35:
            t = ["r%d" % rnd.randrange(n)]
        elif k < 0.6:
            t = ["heads"]
        elif k < 0.65:
            t = ["base"]
        else:
            t = ["r%d" % x for x in rnd.sample(range(n), rnd.choice([2, 2, 3]))]
        yield {"g": g, "rows": H, "target": t, "purge": rnd.random() < 0.15, "kind": "random"}


def generate(tier, seed):
    rnd = random.Random(seed * 7919 + 5)
    # the design-time witness of the multi-target deviation first (c base; b<-c; a<-c; e<-a; d base depends_on c)
    yield {"g": [{"id": 0, "down": [], "deps": []}, {"id": 1, "down": [0], "deps": []}, {"id": 2, "down": [0], "deps": []},
                 {"id": 3, "down": [2], "deps": []}, {"id": 4, "down": [], "deps": [0]}],
           "rows": [2, 4], "target": ["heads"], "purge": False, "kind": "witness"}
    for n in (1, 2, 3):
        yield from exhaustive(n)
    yield from exhaustive(4, half_multi=(tier == "quick"))
    yield from random_cases(rnd, 1500 if tier == "quick" else 15000)
    if tier == "thorough":
        for n in (2, 3, 4):
            yield from exhaustive(n, ordered=True, triples=True)
        for n in (3, 4):
            yield from exhaustive(n, rev_order=True)


def search(tier, seed):
    rnd = random.Random(seed * 104729 + 5)
    yield from random_cases(rnd, 6000)

# ----------------------------------------------------------------------------- implementation side

def run_case(h):
    import warnings
    import logging
    warnings.simplefilter("ignore")
    logging.disable(logging.CRITICAL)
    import sqlalchemy as sa
    from sqlalchemy import event
    from alembic.runtime.migration import MigrationContext, StampStep
    from alembic import util

    s, m, enc = base.build(h["g"])
    eng, conn, opts, qual = base.open_db(None)
    try:
        log, harness_fail = [], []

        @event.listens_for(conn, "after_cursor_execute")
        def ace(c, cursor, statement, parameters, context, executemany):
            try:
                p = base.parse_stmt(statement, cursor.rowcount)
            except RuntimeError as e:          # a harness problem: must not be mistaken for an alembic exception
                harness_fail.append(str(e))
                raise
            if p:
                log.append(p)

        MigrationContext.configure(conn)._ensure_version_table()
        for r in h["rows"]:
            conn.execute(sa.text("INSERT INTO %s (version_num) VALUES ('%s')" % (qual, base._name(r))))
        rows_seen = base.select_rows(conn, qual)          # the order get_current_heads() will see
        del log[:]
        plan, planerr, obs = [], [], []
        revision = util.to_tuple(list(h["target"]))

        def do_stamp(heads, ctx):
            try:
                plan.extend(s._stamp_revs(revision, heads))
            except Exception as e:
                planerr.append(base.err_class(e))
                raise
            return list(plan)

        def cb(ctx, step, heads, run_args):
            obs.append(("ok", base.select_rows(conn, qual), list(log)))
            del log[:]

        ctx = MigrationContext.configure(conn, opts={"fn": do_stamp, "purge": bool(h["purge"]), "on_version_apply": [cb]})
        try:
            ctx.run_migrations()
        except Exception as e:
            if not planerr:
                obs.append(("err", base.err_class(e)))
    finally:
        conn.close()
        eng.dispose()

    if harness_fail:
        raise RuntimeError(harness_fail[0])

    def stmt(p):
        if p[0] == "ins":
            return "Ins %d" % p[1]
        if p[0] == "del":
            return "Del %d %d" % (p[1], p[2])
        return "Upd %d %d %d" % (p[1], p[2], p[3])

    def ob(x):
        if x[0] == "ok":
            return "ObsOk %s %s" % (cf.nlist(x[1]), cf.lst(stmt(p) for p in x[2]))
        return "ObsErr %s" % x[1]

    def st(x):
        if not isinstance(x, StampStep):
            raise RuntimeError("unexpected step %r" % (x,))
        return "StampStep %s %s %s %s" % (cf.nlist(base._back(v) for v in x.from_), cf.nlist(base._back(v) for v in x.to_),
                                          cf.boolean(x.is_upgrade), cf.boolean(x.branch_move))

    t = h["target"]
    real_heads = [base._back(x) for x in m._real_heads]
    if t == ["base"]:
        tgt, R = "TBase", []
    elif t == ["heads"]:
        tgt, R = "THeads %s" % cf.nlist(real_heads), real_heads
    else:
        R = [base._back(x) for x in t]
        tgt = "TIds %s" % cf.nlist(R)
    cin = "(%s, %s, %s, %s)" % (cf.graph(enc), cf.boolean(h["purge"]), tgt, cf.nlist(rows_seen))
    if planerr:
        cout = "Err %s" % planerr[0]
    else:
        cout = "Ok (%s, %s)" % (cf.lst(st(x) for x in plan), cf.lst(ob(x) for x in obs))
    # reference bookkeeping for classification only
    par = {r["id"]: set(r["down"]) | set(r["deps"]) for r in enc}
    cl = {i: base._closure(par, [i]) for i in par}
    H0 = [] if h["purge"] else rows_seen
    related = [x for x in R if any(x in cl[y] or y in cl[x] for y in H0)]
    out = {"steps": [str(x) for x in plan] if not planerr else None, "planerr": planerr, "obs": obs,
           "rows_before": rows_seen, "targets": R, "related_targets": related}
    errs = sorted(set(planerr) | {x[1] for x in obs if x[0] == "err"})
    shape = "%s-%s%s%s" % (h.get("kind", "?"), "base" if t == ["base"] else "heads" if t == ["heads"] else "ids%d" % len(t),
                           "-rel%d" % len(related) if len(R) > 1 else "", "-" + "+".join(errs) if errs else "")
    return dict(cin=cin, cout=cout, out=out, nontrivial=bool(plan), shape=shape)


def classify(human, out):
    """the recorded multi-target deviation: more than one target, and more than one of them shares lineage with a row"""
    if out and len(out.get("targets", [])) > 1 and len(out.get("related_targets", [])) > 1:
        return "C05-multi-target-stamp"
    return None


DESIGN_REF = "DESIGN.md section 5 C05, section 6.1 (multi-target stamp), Appendix A' (last paragraph)"
TECHNIQUE = ("Coq proof over all histories and antichain states that the modelled _stamp_revs + update_to_step replaces exactly the "
             "rows sharing lineage with the target, a vm_compute refutation for several targets, and an exact correspondence "
             "(StampSteps, rows, statements with counts) against the real code on SQLite, exhaustive up to 4 revisions")
LEVEL_TEXT = ("Machine-checked, unbounded in the history: for a single target, `base`, and with --purge, from every antichain state the "
              "model of _stamp_revs/StampStep/HeadMaintainer never errs, every DELETE/UPDATE matches one row, and the rows become "
              "(H minus lineage(target)) plus the target, duplicate-free and an antichain; for several targets the same is proved when at "
              "most one target shares lineage with a row, and REFUTED otherwise (a row unrelated to the moved branch is deleted). The model "
              "is compared exactly with the real code on every history of <=4 revisions x every antichain state x every target.")
LEVEL_NOTE = ("Trusted: Coq kernel+vm_compute, the hand-written model (tied by correspondence, exhaustive only up to 4 revisions), the Python "
              "harness. Known finding C05-multi-target-stamp: `stamp heads` / several ids when two targets each share lineage with a row. "
              "Partial ids, branch labels and --sql stamps are outside the model.")
