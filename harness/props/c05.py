"""C05 — stamp: the REAL ScriptDirectory._stamp_revs + MigrationContext.run_migrations/HeadMaintainer on SQLite
vs Model.Stamp.stamp."""
import itertools
import random

from harness import coqfmt as cf
from harness.props import c03 as base

PROP = "C05"
COQ = dict(imports=["Model.Heads", "Model.Stamp", "Spec.C05"], in_ty="c05_any", out_ty="c05_anyout",
           corr="corr_C05_any", decide="check_C05_any", model="model_C05_any")
THEOREMS = ["C05_decider_sound", "C05_single_target", "C05_base", "C05_purge", "C05_multi_refuted", "C05_multi_partial",
            "C05_multi_partial_class", "C05_any_decider_sound", "C05_e2e_single", "C05_e2e_base", "C05_e2e_purge_any_table",
            "C05_label_head_refuted", "C05_label_base", "C05_label_head_partial",
            "C05_multi_partial_general", "C05_multi_down_refuted", "C05_partial_single", "C05_resolve_partial_spec",
            "C05_multi_db_pointwise", "C05_multi_db_single", "C05_multi_db_base"]
TRUSTED = [
    "SQLite + SQLAlchemy execute the three bookkeeping statements as the list model says; matched-row counts are observed",
    "the revision graph is given to the model already loaded; `heads` is given as the observed order of RevisionMap._real_heads "
    "(the model checks that it is a permutation of the real heads); rows are given in the order SELECT returns them",
    "targets are full revision ids, `base`, `heads`, and (end-to-end cases) <label>@head / <label>@base and PARTIAL ids, whose "
    "resolution is part of the model (resolve_label; resolve_partial: exact key, else the unique key longer than 3 characters that "
    "starts with the string, given the observed keys of _revision_map); relative targets are not modelled",
    "end-to-end cases: env.py (generic template), engine/connection handling and transaction framing (C04) are observed through the "
    "committed rows only; the model says which rows must be committed, not how",
]
ASSUME = [
    "wf_refs G, no directed cycle, r_ndeps as computed by _normalize_depends_on",
    "the state H is a duplicate-free antichain of revisions of G (every state reachable by upgrade/downgrade, property C03)",
    "C05_multi_partial: at most one target shares lineage with a row of the table, or the targets that do are rows themselves; "
    "outside it the real code deviates (known finding C05-multi-target-stamp, C05_multi_refuted)",
    "C05_label_head_partial: no row shares lineage with the labelled revision only (otherwise known finding C05-label-head-stamp, "
    "C05_label_head_refuted); C05_label_base has no such restriction",
]
RULE = ("quick: EVERY history of <=4 revisions (topological load order, each earlier revision absent / down_revision / depends_on "
        "of each later one) x EVERY antichain state H x targets {each id, base, heads, every unordered pair of ids (pairs on 4 revisions: every second history in quick, "
        "all in thorough)}, without --purge; with --purge for every history, every target and the largest state; seeded random histories of 5-10 revisions "
        "x random antichain states x random targets (single, pairs, triples, heads, base) x purge. thorough adds ordered pairs, "
        "triples on <=4 revisions, the reversed load order and 10x the random cases. END TO END: the real command.stamp(config, target, "
        "purge=..) with a generic-template env.py on a SQLite FILE, rows read back by a FRESH connection: every history of <=3 revisions "
        "(+12 sampled 4-revision ones; thorough 200) x {every antichain state reached by real `upgrade` commands, a table holding an id "
        "the scripts do not know (with and without a known one)} x targets {base, each id, lab@head and lab@base for every placement of the label "
        "(resolved by the model: Model.Stamp.resolve_label)} x purge; the same on <=3 revisions with the version-table variants of C03 (version_table name, version_table_schema through an "
        "ATTACHed database file, version_table_pk=False); partial ids (unique / ambiguous / too short / unknown prefixes of 8-character ids, single and in pairs) as targets; "
        "2-3 databases in ONE run (multidb-shaped env.py: configure + run_migrations per engine in one EnvironmentContext), each "
        "database starting from its own rows incl. stale unknown ones, with and without --purge; the committed rows / exception class are compared with Model.Stamp.stamp_cmd / stamp_partial / stamp_multi. Compared exactly: the StampSteps returned by "
        "_stamp_revs (from_, to_, is_upgrade, branch_move), after every step the rows (multiset) and every statement with its "
        "matched-row count, the exception class. non-trivial = at least one step ran")
EXHAUSTIVE = {"quick": True, "thorough": True}
CASE_TIMEOUT = 60

# ----------------------------------------------------------------------------- generators

def targets(n, ordered=False, triples=False):
    out = [["r%d" % i] for i in range(n)] + [["base"], ["heads"]]
    pairs = itertools.permutations(range(n), 2) if ordered else itertools.combinations(range(n), 2)
    out += [["r%d" % a, "r%d" % b] for a, b in pairs]
    if triples:
        out += [["r%d" % a, "r%d" % b, "r%d" % c] for a, b, c in itertools.combinations(range(n), 3)]
    return out


def exhaustive(n, ordered=False, triples=False, rev_order=False, half_multi=False):
    """half_multi: several-id targets only for every second history (the single/base/heads targets stay exhaustive)"""
    for k, (down, deps) in enumerate(base.topo_graphs(n)):
        g = base._g(n, down, deps, list(range(n))[::-1] if rev_order else None)
        acs = list(base.antichains(n, down, deps))
        tg = [t for t in targets(n, ordered, triples) if len(t) == 1 or not half_multi or k % 2 == 0]
        for H in acs:
            for t in tg:
                yield {"g": g, "rows": H, "target": t, "purge": False, "kind": "exh-n%d" % n}
        for t in tg:
            yield {"g": g, "rows": max(acs, key=len), "target": t, "purge": True, "kind": "exh-purge-n%d" % n}


def random_cases(rnd, count):
    for _ in range(count):
        n = rnd.randint(5, 10)
        down, deps = base.rand_dag(rnd, n)
        g = base._g(n, down, deps)
        par = {i: set(down.get(i, ())) | set(deps.get(i, ())) for i in range(n)}
        cl = {i: base._closure(par, [i]) for i in range(n)}
        order = list(range(n))
        rnd.shuffle(order)
        H = []
        for x in order:                       # a random antichain
            if rnd.random() < 0.6 and all(x not in cl[h] and h not in cl[x] for h in H):
                H.append(x)
        k = rnd.random()
        if k < 0.35:
            t = ["r%d" % rnd.randrange(n)]
        elif k < 0.6:
            t = ["heads"]
        elif k < 0.65:
            t = ["base"]
        else:
            t = ["r%d" % x for x in rnd.sample(range(n), rnd.choice([2, 2, 3]))]
        yield {"g": g, "rows": H, "target": t, "purge": rnd.random() < 0.15, "kind": "random"}


def e2e_cases(n, rnd=None, sample=None, cfg=None, labs=None):
    """command.stamp end to end on a database FILE: history of n revisions (revision `lab` carries the branch label
    `lab`), start state = an antichain reached by real `upgrade` commands, or a table holding an id the scripts do
    not know (the reason --purge exists); targets base / each id / lab@head; with and without --purge"""
    graphs = list(base.topo_graphs(n))
    if sample is not None:
        graphs = rnd.sample(graphs, sample)
    for down, deps in graphs:
        g = base._g(n, down, deps)
        kids = {i: [j for j in range(n) if i in down.get(j, ())] for i in range(n)}
        for lab in (range(n) if labs is None else labs):
            # lab@head resolves iff exactly one head (by down_revision) descends from the labelled revision
            seen, todo, heads = set(), [lab], set()
            while todo:
                u = todo.pop()
                if u in seen:
                    continue
                seen.add(u)
                if not kids[u]:
                    heads.add(u)
                todo.extend(kids[u])
            # label targets for every placement of the label (several heads under the label: CommandError on both sides)
            tg = [["base"]] + [["r%d" % i] for i in range(n)] + [["lab@head"], ["lab@base"]]
            if lab > 0:
                tg = [t for t in tg if "@" in t[0]]            # the unlabelled targets are the same for every lab
            states = [{"up": S} for S in base.antichains(n, down, deps)] + [{"raw": [99]}, {"raw": [99, 0]}]
            for st in states:
                for t in tg:
                    for purge in (False, True):
                        yield {"e2e": True, "g": g, "label_on": lab, "state": st, "target": t, "purge": purge, "cfg": cfg,
                               "kind": "e2e-n%d" % n}


LONG = ["ab12cd00", "ab12ef11", "cd34ab22", "ef56ab33"]          # two ids share the prefix ab12
PREFIXES = [["ab12"], ["ab12c"], ["ab12e"], ["cd3"], ["cd34ab"], ["ef56ab33"], ["zz99"], ["ab1"],
            ["ab12c", "cd34"], ["cd34", "ab12e"], ["ab12c", "ab12e"], ["cd34", "ab12"], ["ef56", "cd34"]]


def partial_cases(n, rnd=None, sample=None):
    """partial revision ids (prefixes) as stamp targets, single and several, end to end: ids of 8 characters, unique and
    ambiguous prefixes, a prefix shorter than 4 characters, no match"""
    graphs = list(base.topo_graphs(n))
    if sample is not None:
        graphs = rnd.sample(graphs, sample)
    for down, deps in graphs:
        g = base._g(n, down, deps)
        known = PREFIXES
        for st in [{"up": S} for S in base.antichains(n, down, deps)] + [{"raw": [99]}]:
            for t in known:
                for purge in (False, True):
                    yield {"e2e": True, "partial": True, "names": LONG[:n], "g": g, "label_on": -1, "state": st, "target": t,
                           "purge": purge, "cfg": None, "kind": "e2e-n%d" % n}


def multi_cases(n, rnd, count):
    """2-3 databases in one run, each starting from its own rows (antichains, empty, stale unknown rows)"""
    graphs = list(base.topo_graphs(n))
    for _ in range(count):
        down, deps = rnd.choice(graphs)
        g = base._g(n, down, deps)
        acs = list(base.antichains(n, down, deps))
        k = rnd.choice([2, 2, 3])
        dbs = [rnd.choice(acs + [[99], [99, 0]]) for _ in range(k)]
        for t in [["base"]] + [["r%d" % i] for i in range(n)]:
            for purge in (False, True):
                yield {"multi": True, "e2e": True, "g": g, "dbs": dbs, "target": t, "purge": purge, "kind": "multi-n%d" % n}


def generate(tier, seed):
    rnd = random.Random(seed * 7919 + 5)
    # the design-time witness of the multi-target deviation first (c base; b<-c; a<-c; e<-a; d base depends_on c)
    yield {"g": [{"id": 0, "down": [], "deps": []}, {"id": 1, "down": [0], "deps": []}, {"id": 2, "down": [0], "deps": []},
                 {"id": 3, "down": [2], "deps": []}, {"id": 4, "down": [], "deps": [0]}],
           "rows": [2, 4], "target": ["heads"], "purge": False, "kind": "witness"}
    for n in (1, 2, 3):
        yield from exhaustive(n)
    yield from exhaustive(4, half_multi=(tier == "quick"))
    yield from random_cases(rnd, 1500 if tier == "quick" else 15000)
    # witness of the label@head deviation: c(label) base; a<-c; e<-a; d base depends_on c; rows {a,d}; stamp lab@head
    yield {"e2e": True, "g": [{"id": 0, "down": [], "deps": []}, {"id": 1, "down": [0], "deps": []}, {"id": 2, "down": [1], "deps": []},
                               {"id": 3, "down": [], "deps": [0]}], "label_on": 0, "state": {"up": [1, 3]}, "target": ["lab@head"],
           "purge": False, "kind": "e2e-witness"}
    for n in (1, 2, 3):
        yield from e2e_cases(n)
    yield from e2e_cases(4, rnd, 12 if tier == "quick" else 200)
    # partial ids as targets
    for n in (1, 2):
        yield from partial_cases(n)
    yield from partial_cases(3, rnd, 5 if tier == "quick" else 27)
    yield from partial_cases(4, rnd, 2 if tier == "quick" else 40)
    # several databases in one run
    for n in (2, 3):
        yield from multi_cases(n, rnd, 25 if tier == "quick" else 250)
    # version_table name / version_table_schema (ATTACHed database file) / version_table_pk=False, on non-empty tables too
    for vc in base.CFGS[1:]:
        for n in (1, 2):
            yield from e2e_cases(n, cfg=vc)
        if tier == "quick":
            yield from e2e_cases(3, rnd, 6, cfg=vc, labs=(0,))
        else:
            yield from e2e_cases(3, cfg=vc)
    if tier == "thorough":
        for n in (2, 3, 4):
            yield from exhaustive(n, ordered=True, triples=True)
        for n in (3, 4):
            yield from exhaustive(n, rev_order=True)


def search(tier, seed):
    rnd = random.Random(seed * 104729 + 5)
    yield from random_cases(rnd, 6000)

# ----------------------------------------------------------------------------- implementation side

ENV_PY = """
from sqlalchemy import engine_from_config, pool
from alembic import context
config = context.config
vt = config.attributes.get("vt") or {}
connectable = engine_from_config(config.get_section(config.config_ini_section, {}), prefix="sqlalchemy.", poolclass=pool.NullPool)
with connectable.connect() as connection:
    if vt.get("attach"):
        connection.exec_driver_sql("ATTACH DATABASE '%s' AS %s" % (vt["attach"], vt["version_table_schema"]))
        connection.commit()          # do not leave an autobegun transaction: alembic would treat it as an external one
    kw = {k: vt[k] for k in ("version_table", "version_table_schema", "version_table_pk") if k in vt}
    context.configure(connection=connection, target_metadata=None, **kw)
    with context.begin_transaction():
        context.run_migrations()
"""


def run_e2e(h):
    """the real command.stamp (env.py as in the generic template) on a SQLite file; rows read back by a fresh connection"""
    import io
    import logging
    import os
    import shutil
    import tempfile
    import warnings
    warnings.simplefilter("ignore")
    logging.disable(logging.CRITICAL)
    import sqlalchemy as sa
    from alembic import command
    from alembic.config import Config
    from alembic.script import ScriptDirectory

    names = h.get("names")                       # long revision ids (for partial-id targets); default r<i>
    nm = (lambda i: names[i] if i < len(names) else "zz%06d" % i) if names else base._name
    bk = (lambda x: names.index(x) if x in names else int(x[2:])) if names else base._back
    tmp = tempfile.mkdtemp(prefix="avc05")
    try:
        sd = os.path.join(tmp, "scripts")
        os.makedirs(os.path.join(sd, "versions"))
        open(os.path.join(sd, "env.py"), "w").write(ENV_PY)
        open(os.path.join(sd, "script.py.mako"), "w").write("")
        tup = lambda xs: repr(tuple(nm(x) for x in xs)) if xs else "None"
        for r in h["g"]:
            open(os.path.join(sd, "versions", "%s.py" % nm(r["id"])), "w").write(
                "revision = %r\ndown_revision = %s\ndepends_on = %s\nbranch_labels = %s\n"
                "def upgrade():\n    pass\ndef downgrade():\n    pass\n" % (
                    nm(r["id"]), tup(r["down"]), tup(r["deps"]), "'lab'" if r["id"] == h["label_on"] else "None"))
        url = "sqlite:///" + os.path.join(tmp, "db.sqlite")
        cfg = Config(stdout=io.StringIO())
        cfg.set_main_option("script_location", sd)
        cfg.set_main_option("sqlalchemy.url", url)
        # version table variants (name / schema through an ATTACHed database file / no primary key), as in C03
        vc = h.get("cfg")
        table, schema, pk = (vc["table"], vc["schema"], vc["pk"]) if vc else ("alembic_version", None, True)
        attach = os.path.join(tmp, "aux.sqlite") if schema else None
        if vc:
            cfg.attributes["vt"] = {"version_table": table, "version_table_pk": pk}
            if schema:
                cfg.attributes["vt"].update({"version_table_schema": schema, "attach": attach})
        qual = ('"%s".' % schema if schema else "") + '"%s"' % table

        def connect(eng):
            c = eng.connect()
            if schema:
                c.exec_driver_sql("ATTACH DATABASE '%s' AS %s" % (attach, schema))
                c.commit()
            return c

        def fresh_rows():
            eng = sa.create_engine(url)
            try:
                with connect(eng) as c:
                    if not sa.inspect(c).has_table(table, schema=schema):
                        return []
                    return [bk(r[0]) for r in c.execute(sa.text("SELECT version_num FROM %s" % qual))]
            finally:
                eng.dispose()

        # the start state
        st = h["state"]
        if "up" in st:
            for x in st["up"]:
                command.upgrade(cfg, nm(x))
            if sorted(fresh_rows()) != sorted(st["up"]):
                raise RuntimeError("could not reach state %r: rows %r" % (st["up"], fresh_rows()))
        else:
            eng = sa.create_engine(url)
            with connect(eng) as c:
                c.execute(sa.text("CREATE TABLE %s (version_num VARCHAR(32) NOT NULL%s)" % (
                    qual, ", PRIMARY KEY (version_num)" if pk else "")))
                for x in st["raw"]:
                    c.execute(sa.text("INSERT INTO %s VALUES ('%s')" % (qual, nm(x))))
                c.commit()
            eng.dispose()
        before = fresh_rows()

        # what the model is given: the history as loaded, and the resolution of the target (C16's business)
        script = ScriptDirectory.from_config(cfg)
        m = script.revision_map
        order = [k for k, v in m._revision_map.items() if v is not None and k == v.revision]
        enc = [{"id": bk(k), "down": [bk(x) for x in m._revision_map[k]._versioned_down_revisions],
                "deps": sorted(bk(x) for x in m._revision_map[k]._resolved_dependencies),
                "ndeps": [bk(x) for x in m._revision_map[k]._normalized_resolved_dependencies],
                "labels": [0] if "lab" in m._revision_map[k]._orig_branch_labels else []} for k in order]
        t = h["target"][0]
        label = "@" in t
        partial = bool(h.get("partial"))
        if partial:                       # prefixes, resolved by the MODEL (Model.Stamp.resolve_partial) from the map's keys
            keys = [(k, bk(v.revision)) for k, v in m._revision_map.items() if isinstance(k, str) and v is not None]
            groups, dests = None, None
        elif t == "base":
            groups, dests = [[]], None
        elif label:                       # resolved by the MODEL (Model.Stamp.resolve_label); here only for classification
            kids = {r["id"]: [q["id"] for q in enc if r["id"] in q["down"]] for r in enc}
            seen, todo, hd = set(), [h["label_on"]], []
            while todo:
                u = todo.pop()
                if u not in seen:
                    seen.add(u)
                    todo.extend(kids[u])
                    if not kids[u]:
                        hd.append(u)
            groups, dests = [[h["label_on"]] + hd], (hd if t.endswith("@head") and len(hd) == 1 else None)
        else:
            groups, dests = [[bk(t)]], [bk(t)]

        try:
            command.stamp(cfg, list(h["target"]) if partial else t, purge=bool(h["purge"]))
            after = fresh_rows()
            cout, out = "OE2E (Ok %s)" % cf.nlist(after), {"rows_before": before, "rows_after": after}
        except Exception as e:
            cls = base.err_class(e)
            cout, out = "OE2E (Err %s)" % cls, {"rows_before": before, "err": cls, "rows_after": fresh_rows()}
    finally:
        shutil.rmtree(tmp, ignore_errors=True)
    if partial:
        cin = "CPartial (%s, %s, %s, %s, %s)" % (
            cf.graph(enc), cf.boolean(h["purge"]), cf.lst("(%s, %d)" % (cf.string(k), v) for k, v in keys),
            cf.lst(cf.string(x) for x in h["target"]), cf.nlist(before))
        # reference resolution, for classification only
        res = []
        for x in h["target"]:
            ms = [v for k, v in keys if k == x] or [v for k, v in keys if len(k) > 3 and k.startswith(x)]
            res.append(ms[0] if len(ms) == 1 else None)
        dests = res if None not in res else None
        groups = [[d] for d in dests] if dests else [[]]
    elif label:
        cin = "CLabel (%s, %s, %s 0, %s)" % (cf.graph(enc), cf.boolean(h["purge"]), "LHead" if t.endswith("@head") else "LBase",
                                            cf.nlist(before))
    else:
        cin = "CE2E (%s, %s, %s, %s, %s)" % (cf.graph(enc), cf.boolean(h["purge"]), cf.lst(cf.nlist(a) for a in groups),
                                           "None" if dests is None else "(Some %s)" % cf.nlist(dests), cf.nlist(before))
    par = {r["id"]: set(r["down"]) | set(r["deps"]) for r in enc}
    cl = {i: base._closure(par, [i]) for i in par}
    rel = lambda a, b: a in cl and b in cl and (a in cl[b] or b in cl[a])
    start = [] if h["purge"] else before
    label_only = [x for x in start if dests and len(groups[0]) > 1 and rel(x, groups[0][0]) and not rel(x, dests[0])]
    out.update({"kind": "e2e", "groups": groups, "dests": dests, "label_only_rows": label_only})
    if partial and dests:
        out.update({"targets": dests, "related_targets": [x for x in dests if any(rel(x, y) for y in start)]})
    shape = "%s%s-%s-%s%s%s" % (h["kind"], "-cfg:%s/%s/%s" % (table, schema, "pk" if pk else "nopk") if vc else "",
                                "up" if "up" in st else "unknown-row", "partial%d%s" % (len(h["target"]), "" if dests else "-unresolved") if partial else "base" if t == "base" else t if "@" in t else "id",
                                "-purge" if h["purge"] else "", "-" + out["err"] if "err" in out else "")
    return dict(cin=cin, cout=cout, out=out, nontrivial="err" not in out and sorted(before) != sorted(out["rows_after"]), shape=shape)


MULTI_ENV_PY = """
import sqlalchemy as sa
from sqlalchemy import pool
from alembic import context
config = context.config
# the multidb template's shape: one EnvironmentContext, configure + run_migrations per engine, one transaction each
engines = {}
for name, url in config.attributes["dbs"]:
    engines[name] = rec = {"engine": sa.create_engine(url, poolclass=pool.NullPool)}
for name, rec in engines.items():
    rec["connection"] = conn = rec["engine"].connect()
    rec["transaction"] = conn.begin()
try:
    for name, rec in engines.items():
        context.configure(connection=rec["connection"], upgrade_token="%s_upgrades" % name,
                          downgrade_token="%s_downgrades" % name, target_metadata=None)
        context.run_migrations(engine_name=name)
    for rec in engines.values():
        rec["transaction"].commit()
except:
    for rec in engines.values():
        rec["transaction"].rollback()
    raise
finally:
    for rec in engines.values():
        rec["connection"].close()
"""


def run_multi(h):
    """command.stamp on SEVERAL SQLite files through one env.py that loops over them (multidb shape); every database
    starts from its own rows; rows of every database read back by fresh connections"""
    import io
    import logging
    import os
    import shutil
    import tempfile
    import warnings
    warnings.simplefilter("ignore")
    logging.disable(logging.CRITICAL)
    import sqlalchemy as sa
    from alembic import command
    from alembic.config import Config
    from alembic.script import ScriptDirectory

    tmp = tempfile.mkdtemp(prefix="avc05m")
    try:
        sd = os.path.join(tmp, "scripts")
        os.makedirs(os.path.join(sd, "versions"))
        open(os.path.join(sd, "env.py"), "w").write(MULTI_ENV_PY)
        open(os.path.join(sd, "script.py.mako"), "w").write("")
        tup = lambda xs: repr(tuple(base._name(x) for x in xs)) if xs else "None"
        for r in h["g"]:
            open(os.path.join(sd, "versions", "%s.py" % base._name(r["id"])), "w").write(
                "revision = %r\ndown_revision = %s\ndepends_on = %s\n"
                "def upgrade(engine_name):\n    pass\ndef downgrade(engine_name):\n    pass\n" % (
                    base._name(r["id"]), tup(r["down"]), tup(r["deps"])))
        urls = [("db%d" % k, "sqlite:///" + os.path.join(tmp, "db%d.sqlite" % k)) for k in range(len(h["dbs"]))]
        cfg = Config(stdout=io.StringIO())
        cfg.set_main_option("script_location", sd)
        cfg.attributes["dbs"] = urls

        def rows_of(url):
            eng = sa.create_engine(url)
            try:
                with eng.connect() as c:
                    return [base._back(r[0]) for r in c.execute(sa.text("SELECT version_num FROM alembic_version"))]
            finally:
                eng.dispose()

        for (name, url), rws in zip(urls, h["dbs"]):
            eng = sa.create_engine(url)
            with eng.begin() as c:
                c.execute(sa.text("CREATE TABLE alembic_version (version_num VARCHAR(32) NOT NULL, "
                                  "CONSTRAINT alembic_version_pkc PRIMARY KEY (version_num))"))
                for x in rws:
                    c.execute(sa.text("INSERT INTO alembic_version VALUES ('%s')" % base._name(x)))
            eng.dispose()
        before = [rows_of(u) for _, u in urls]
        m = ScriptDirectory.from_config(cfg).revision_map
        order = [k for k, v in m._revision_map.items() if v is not None and k == v.revision]
        enc = [{"id": base._back(k), "down": [base._back(x) for x in m._revision_map[k]._versioned_down_revisions],
                "deps": sorted(base._back(x) for x in m._revision_map[k]._resolved_dependencies),
                "ndeps": [base._back(x) for x in m._revision_map[k]._normalized_resolved_dependencies]} for k in order]
        t = h["target"][0]
        groups, dests = ([[]], None) if t == "base" else ([[base._back(t)]], [base._back(t)])
        try:
            command.stamp(cfg, t, purge=bool(h["purge"]))
            after = [rows_of(u) for _, u in urls]
            cout, out = "OMulti (Ok %s)" % cf.lst(cf.nlist(a) for a in after), {"rows_before": before, "rows_after": after}
        except Exception as e:
            cls = base.err_class(e)
            cout, out = "OMulti (Err %s)" % cls, {"rows_before": before, "err": cls, "rows_after": [rows_of(u) for _, u in urls]}
    finally:
        shutil.rmtree(tmp, ignore_errors=True)
    cin = "CMulti (%s, %s, %s, %s, %s)" % (cf.graph(enc), cf.boolean(h["purge"]), cf.lst(cf.nlist(a) for a in groups),
                                         "None" if dests is None else "(Some %s)" % cf.nlist(dests), cf.lst(cf.nlist(b) for b in before))
    out.update({"kind": "multi", "dests": dests})
    shape = "%s-%ddb-%s%s%s" % (h["kind"], len(before), "base" if t == "base" else "id", "-purge" if h["purge"] else "",
                                "-" + out["err"] if "err" in out else "")
    return dict(cin=cin, cout=cout, out=out, nontrivial="err" not in out and before != out["rows_after"], shape=shape)


def run_case(h):
    if h.get("multi"):
        return run_multi(h)
    if h.get("e2e"):
        return run_e2e(h)
    import warnings
    import logging
    warnings.simplefilter("ignore")
    logging.disable(logging.CRITICAL)
    import sqlalchemy as sa
    from sqlalchemy import event
    from alembic.runtime.migration import MigrationContext, StampStep
    from alembic import util

    s, m, enc = base.build(h["g"])
    eng, conn, opts, qual = base.open_db(None)
    try:
        log, harness_fail = [], []

        @event.listens_for(conn, "after_cursor_execute")
        def ace(c, cursor, statement, parameters, context, executemany):
            try:
                p = base.parse_stmt(statement, cursor.rowcount)
            except RuntimeError as e:          # a harness problem: must not be mistaken for an alembic exception
                harness_fail.append(str(e))
                raise
            if p:
                log.append(p)

        MigrationContext.configure(conn)._ensure_version_table()
        for r in h["rows"]:
            conn.execute(sa.text("INSERT INTO %s (version_num) VALUES ('%s')" % (qual, base._name(r))))
        rows_seen = base.select_rows(conn, qual)          # the order get_current_heads() will see
        del log[:]
        plan, planerr, obs = [], [], []
        revision = util.to_tuple(list(h["target"]))

        def do_stamp(heads, ctx):
            try:
                plan.extend(s._stamp_revs(revision, heads))
            except Exception as e:
                planerr.append(base.err_class(e))
                raise
            return list(plan)

        def cb(ctx, step, heads, run_args):
            obs.append(("ok", base.select_rows(conn, qual), list(log)))
            del log[:]

        ctx = MigrationContext.configure(conn, opts={"fn": do_stamp, "purge": bool(h["purge"]), "on_version_apply": [cb]})
        try:
            ctx.run_migrations()
        except Exception as e:
            if not planerr:
                obs.append(("err", base.err_class(e)))
    finally:
        conn.close()
        eng.dispose()

    if harness_fail:
        raise RuntimeError(harness_fail[0])

    def stmt(p):
        if p[0] == "ins":
            return "Ins %d" % p[1]
        if p[0] == "del":
            return "Del %d %d" % (p[1], p[2])
        return "Upd %d %d %d" % (p[1], p[2], p[3])

    def ob(x):
        if x[0] == "ok":
            return "ObsOk %s %s" % (cf.nlist(x[1]), cf.lst(stmt(p) for p in x[2]))
        return "ObsErr %s" % x[1]

    def st(x):
        if not isinstance(x, StampStep):
            raise RuntimeError("unexpected step %r" % (x,))
        return "StampStep %s %s %s %s" % (cf.nlist(base._back(v) for v in x.from_), cf.nlist(base._back(v) for v in x.to_),
                                          cf.boolean(x.is_upgrade), cf.boolean(x.branch_move))

    t = h["target"]
    real_heads = [base._back(x) for x in m._real_heads]
    if t == ["base"]:
        tgt, R = "TBase", []
    elif t == ["heads"]:
        tgt, R = "THeads %s" % cf.nlist(real_heads), real_heads
    else:
        R = [base._back(x) for x in t]
        tgt = "TIds %s" % cf.nlist(R)
    cin = "CStamp (%s, %s, %s, %s)" % (cf.graph(enc), cf.boolean(h["purge"]), tgt, cf.nlist(rows_seen))
    if planerr:
        cout = "OStamp (Err %s)" % planerr[0]
    else:
        cout = "OStamp (Ok (%s, %s))" % (cf.lst(st(x) for x in plan), cf.lst(ob(x) for x in obs))
    # reference bookkeeping for classification only
    par = {r["id"]: set(r["down"]) | set(r["deps"]) for r in enc}
    cl = {i: base._closure(par, [i]) for i in par}
    H0 = [] if h["purge"] else rows_seen
    related = [x for x in R if any(x in cl[y] or y in cl[x] for y in H0)]
    indom = len(set(R)) == len(R) and not any(a != b and (a in cl[b] or b in cl[a]) for a in R for b in R) and \
        not (t != ["base"] and t != ["heads"] and not R)
    out = {"kind": "stamp", "in_domain": indom, "steps_enc": [st(x) for x in plan] if not planerr else None,
           "steps": [str(x) for x in plan] if not planerr else None, "planerr": planerr, "obs": obs,
           "rows_before": rows_seen, "targets": R, "related_targets": related}
    errs = sorted(set(planerr) | {x[1] for x in obs if x[0] == "err"})
    shape = "%s-%s%s%s" % (h.get("kind", "?"), "base" if t == ["base"] else "heads" if t == ["heads"] else "ids%d" % len(t),
                           "-rel%d" % len(related) if len(R) > 1 else "", "-" + "+".join(errs) if errs else "")
    return dict(cin=cin, cout=cout, out=out, nontrivial=bool(plan), shape=shape)


def classify(human, out):
    """the recorded multi-target deviation: more than one target, and more than one of them shares lineage with a row"""
    if out and len(out.get("targets", [])) > 1 and len(out.get("related_targets", [])) > 1:
        return "C05-multi-target-stamp"
    # label@head: a row that shares lineage with the labelled revision but not with the destination
    if out and out.get("label_only_rows"):
        return "C05-label-head-stamp"
    return None


# ----------------------------------------------------------------------------- canaries
def canary(human, rec):
    """corruptions of the observed output that violate C05 for this input"""
    import copy
    out = rec["out"]
    if classify(human, out) is not None:
        return []                                    # the observed output already fails the decider (known finding)
    if out.get("kind") == "multi":
        if "err" in out:
            return []
        after = [list(r) for r in out["rows_after"]]
        enc = lambda rs: "OMulti (Ok %s)" % cf.lst(cf.nlist(a) for a in rs)
        cans = ["OMulti (Err ECommand)", enc(after[:-1])]                       # exception instead; one database missing
        last = after[-1]
        cans.append(enc(after[:-1] + [last + [last[0] if last else 98]]))       # a duplicated / foreign row in the last database
        if last:
            cans.append(enc(after[:-1] + [last[1:]]))                           # a row lost in the last database
        stale = [x for x in out["rows_before"][-1] if x not in last]
        if stale:
            cans.append(enc(after[:-1] + [last + [stale[0]]]))                  # the last database not purged / not moved
        return [c for c in cans if c != rec["cout"]]
    if out.get("kind") == "e2e":
        if "err" in out:
            return []                                # CommandError (unknown row without --purge, label with several heads): nothing claimed
        rows, before = list(out["rows_after"]), list(out["rows_before"])
        cans = ["OE2E (Err ECommand)"]                                         # success turned into an exception
        if rows:
            cans.append("OE2E (Ok %s)" % cf.nlist(rows[1:]))                   # a row lost
            cans.append("OE2E (Ok %s)" % cf.nlist(rows + [rows[0]]))           # a duplicated row
            cans.append("OE2E (Ok %s)" % cf.nlist([rows[0] + 7] + rows[1:]))   # an identifier changed
        stale = [x for x in before if x not in rows]
        cans.append("OE2E (Ok %s)" % cf.nlist(rows + [stale[0] if stale else 98]))   # a stale / foreign row left behind
        return [c for c in cans if c != rec["cout"]]
    if out.get("planerr") or not out.get("in_domain") or any(x[0] != "ok" for x in out["obs"]):
        return []
    steps, obs = out["steps_enc"], [list(x) for x in out["obs"]]

    def stmt(p):
        return "Ins %d" % p[1] if p[0] == "ins" else "Del %d %d" % (p[1], p[2]) if p[0] == "del" else "Upd %d %d %d" % (p[1], p[2], p[3])

    def enc(o):
        return "OStamp (Ok (%s, %s))" % (cf.lst(steps), cf.lst(
            "ObsOk %s %s" % (cf.nlist(x[1]), cf.lst(stmt(p) for p in x[2])) if x[0] == "ok" else "ObsErr %s" % x[1] for x in o))
    cans = ["OStamp (Err EAssert)"]                                            # success turned into an exception
    if obs:
        k = len(obs) - 1
        o = copy.deepcopy(obs); o[k] = ["err", "EKey"]; cans.append(enc(o))   # the last step raised
        o = copy.deepcopy(obs); del o[k]; cans.append(enc(o))                  # an observation missing
        rows = obs[k][1]
        if rows:
            o = copy.deepcopy(obs); o[k][1] = rows[1:]; cans.append(enc(o))            # a row lost
            o = copy.deepcopy(obs); o[k][1] = rows + [rows[0]]; cans.append(enc(o))    # a duplicated row
        prev = obs[k - 1][1] if k > 0 else ([] if human["purge"] else out["rows_before"])
        if sorted(prev) != sorted(rows):
            o = copy.deepcopy(obs); o[k][1] = list(prev); cans.append(enc(o))          # the step left the table unchanged
        for j, p in enumerate(obs[k][2]):
            if p[0] != "ins":                                                          # a DELETE/UPDATE that matched no row
                o = copy.deepcopy(obs); q = list(p); q[-1] = 0; o[k][2][j] = tuple(q); cans.append(enc(o))
                break
    else:
        rows = [] if human["purge"] else list(out["rows_before"])                     # no step ran: the rows stay
    return [c for c in cans if c != rec["cout"]]


DESIGN_REF = "DESIGN.md section 5 C05, section 6.1 (multi-target stamp), Appendix A' (last paragraph)"
TECHNIQUE = ("Coq proof over all histories and antichain states that the modelled _stamp_revs + update_to_step replaces exactly the "
             "rows sharing lineage with the target, a vm_compute refutation for several targets, and an exact correspondence "
             "(StampSteps, rows, statements with counts) against the real code on SQLite, exhaustive up to 4 revisions")
LEVEL_TEXT = ("Machine-checked, unbounded in the history: for a single target, `base`, and with --purge, from every antichain state the "
              "model of _stamp_revs/StampStep/HeadMaintainer never errs, every DELETE/UPDATE matches one row, and the rows become "
              "(H minus lineage(target)) plus the target, duplicate-free and an antichain; for several targets the same is proved when at "
              "most one target shares lineage with a row, and REFUTED otherwise (a row unrelated to the moved branch is deleted). The model "
              "is compared exactly with the real code on every history of <=4 revisions x every antichain state x every target.")
LEVEL_NOTE = ("Trusted: Coq kernel+vm_compute, the hand-written model (tied by correspondence, exhaustive only up to 4 revisions), the Python "
              "harness. Known finding C05-multi-target-stamp: `stamp heads` / several ids when two targets each share lineage with a row. "
              "Partial ids, branch labels and --sql stamps are outside the model.")
