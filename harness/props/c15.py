"""C15 — cycle detection: real RevisionMap._revision_map vs Model.Cycle.load."""
import itertools
import random

from harness import coqfmt as cf

PROP = "C15"
COQ = dict(imports=["Model.Cycle", "Spec.C15"], in_ty="rawgraph", out_ty="load_res",
           corr="corr_C15", decide="check_C15", model="load_raw", inclass="inclass_C15")
THEOREMS = ["C15_iff", "C15_total", "C15_heads_bases", "C15_model_holds", "C15_decider_sound", "C15_kahn_iff", "C15_traversal_total", "C15_accepted_commands_terminate", "C15_raw"]
TRUSTED = ["depends_on is given to the model as written (revision ids or branch labels) and resolved by the model "
           "(label -> the revision carrying it); partial-id dependencies are not generated"]
ASSUME = ["every down_revision / depends_on names a revision that exists, ids are distinct (wf_refs); "
          "an absent reference raises KeyError in the implementation and is outside the statement"]
RULE = ("quick: ALL 4096 digraphs on 4 revisions with down_revision edges only + ALL 4096 on 3 revisions where each "
        "ordered pair is none/down/dep/both + self-loop cases + seeded random graphs of 5-9 revisions (cyclic and acyclic); "
        "thorough adds a 120000 sample of the 2^20 5-revision down-only digraphs and 60000 4-revision graphs with "
        "dependencies. Every graph is loaded by the real code under three spellings of the ids (r0..rN; every id a proper prefix "
        "of the later ones; every id a proper suffix of the earlier ones) and the answers must coincide (a string operation standing "
        "where a tuple operation should). non-trivial = the history has at least one edge; distinct by the encoded graph")
EXHAUSTIVE = {"quick": True, "thorough": True}
CASE_TIMEOUT = 5


def _g(n, down, deps):
    return [{"id": i, "down": sorted(down.get(i, ())), "deps": sorted(deps.get(i, ()))} for i in range(n)]


def with_labels(rnd, g, p=0.5):
    """give some revisions a branch label and write some depends_on entries as the label of their target"""
    g = [dict(r) for r in g]
    owner = {}
    for r in g:
        if rnd.random() < p:
            r["labels"] = [r["id"]]          # label number = id of its owner; rendered "lab<id>"
            owner[r["id"]] = r["id"]
    for r in g:
        r["deps_as_label"] = [d for d in r["deps"] if d in owner and rnd.random() < 0.7]
    return g


def all3_label_deps():
    """every 3-revision digraph with dependencies where revision 2 carries a label and every depends_on
    that points at it is written as that label"""
    for g in all3_dep():
        g = [dict(r) for r in g]
        g[2]["labels"] = [2]
        hit = False
        for r in g:
            r["deps_as_label"] = [d for d in r["deps"] if d == 2]
            hit = hit or bool(r["deps_as_label"])
        if hit:
            yield g


def all4_down():
    pairs = [(i, j) for i in range(4) for j in range(4) if i != j]
    for mask in range(1 << 12):
        down = {}
        for k, (i, j) in enumerate(pairs):
            if mask >> k & 1:
                down.setdefault(i, []).append(j)
        yield _g(4, down, {})


def all3_dep():
    pairs = [(i, j) for i in range(3) for j in range(3) if i != j]
    for combo in itertools.product(range(4), repeat=6):
        down, deps = {}, {}
        for (i, j), c in zip(pairs, combo):
            if c & 1:
                down.setdefault(i, []).append(j)
            if c & 2:
                deps.setdefault(i, []).append(j)
        yield _g(3, down, deps)


def rand_graph(rnd, n, pdown, pdep, acyclic, selfloop=False):
    order = list(range(n))
    rnd.shuffle(order)
    pos = {v: k for k, v in enumerate(order)}
    down, deps = {}, {}
    for i in range(n):
        for j in range(n):
            if i == j:
                continue
            if acyclic and pos[j] > pos[i]:
                continue
            if rnd.random() < pdown:
                down.setdefault(i, []).append(j)
            elif rnd.random() < pdep:
                deps.setdefault(i, []).append(j)
    if selfloop:
        i = rnd.randrange(n)
        (down if rnd.random() < 0.5 else deps).setdefault(i, []).append(i)
    return _g(n, down, deps)


def generate(tier, seed):
    rnd = random.Random(seed * 7919 + 15)
    yield from all4_down()
    yield from all3_dep()
    yield from all3_label_deps()
    nrand = 1500 if tier == "quick" else 20000
    for k in range(nrand):
        n = rnd.randint(5, 9)
        g = rand_graph(rnd, n, rnd.choice([0.1, 0.2, 0.3]), rnd.choice([0, 0.1, 0.2, 0.3]),
                       acyclic=(k % 3 != 0), selfloop=(k % 25 == 0))
        yield with_labels(rnd, g) if k % 2 else g
    if tier == "thorough":
        for _ in range(120000):
            n = 5
            down = {}
            for i in range(n):
                for j in range(n):
                    if i != j and rnd.random() < 0.5:
                        down.setdefault(i, []).append(j)
            yield _g(n, down, {})
        for _ in range(60000):
            yield rand_graph(rnd, 4, 0.3, 0.3, acyclic=False)


def search(tier, seed):
    rnd = random.Random(seed * 104729 + 1)
    for k in range(20000):
        n = rnd.randint(3, 7)
        yield rand_graph(rnd, n, rnd.choice([0.15, 0.3, 0.5]), rnd.choice([0, 0.15, 0.3]), acyclic=(k % 2 == 0))


# naming schemes of the revision ids: the graph (and the model) is the same, the strings differ.  Under "prefix" every id is
# a proper prefix (hence a substring) of every later one, under "suffix" of every earlier one: a string operation that
# stands where a tuple operation should (`x in down_revision` with a scalar down_revision, startswith, ...) shows up.
NAMINGS = [
    ("r", lambda i, n: "r%d" % i, lambda s, n: int(s[1:])),
    ("prefix", lambda i, n: "a" * (i + 1), lambda s, n: len(s) - 1),
    ("suffix", lambda i, n: "b" * (n - i), lambda s, n: n - len(s)),
]


def _load(g, name_, back_):
    from alembic.script import revision as R
    n = len(g)
    name = lambda i: name_(i, n)
    back = lambda s: back_(s, n)
    tup = lambda xs: tuple(name(x) for x in xs) if xs else None

    def deps_of(r):
        al = set(r.get("deps_as_label", ()))
        xs = tuple(("lab%d" % d) if d in al else name(d) for d in r["deps"])
        return xs or None
    try:
        revs = [R.Revision(name(r["id"]), tup(r["down"]), dependencies=deps_of(r),
                           branch_labels=tuple("lab%d" % l for l in r.get("labels", ())) or None) for r in g]
        m = R.RevisionMap(lambda: revs)
        m._revision_map
        out = {"loaded": {"heads": [back(x) for x in m.heads], "bases": [back(x) for x in m.bases],
                          "real_heads": [back(x) for x in m._real_heads], "real_bases": [back(x) for x in m._real_bases]}}
        l = out["loaded"]
        cout = "Loaded (mkLoaded %s %s %s %s)" % (cf.nlist(l["heads"]), cf.nlist(l["bases"]),
                                                  cf.nlist(l["real_heads"]), cf.nlist(l["real_bases"]))
    except R.DependencyLoopDetected:
        out, cout = {"err": "DependencyLoopDetected"}, "LoadErr EDepLoop"
    except R.LoopDetected:
        out, cout = {"err": "LoopDetected"}, "LoadErr ELoop"
    except R.DependencyCycleDetected:
        out, cout = {"err": "DependencyCycleDetected"}, "LoadErr EDepCycle"
    except R.CycleDetected:
        out, cout = {"err": "CycleDetected"}, "LoadErr ECycle"
    except Exception as e:
        out, cout = {"err": "other:" + type(e).__name__}, "LoadErr EOther"
    return out, cout


def _canon(out):
    return out["err"] if "err" in out else tuple((k, tuple(sorted(v))) for k, v in sorted(out["loaded"].items()))


def run_case(g):
    # the real loader under every naming scheme; the answer must not depend on the spelling of the ids: the first
    # scheme whose answer differs from the plain one is the observation handed to the model comparison
    results = [(nm,) + _load(g, f, b) for nm, f, b in NAMINGS]
    naming, out, cout = results[0]
    for nm, o, c in results[1:]:
        if _canon(o) != _canon(out):
            naming, out, cout = nm, dict(o, naming=nm), c
            break
    edges = sum(len(r["down"]) + len(r["deps"]) for r in g)
    shape = "n%d-%s" % (len(g), "err" if "err" in out else "ok")
    def raw(r):
        al = set(r.get("deps_as_label", ()))
        return cf.lst("(%s, %d)" % ("true" if d in al else "false", d) for d in r["deps"])
    cin = cf.lst("(%s, %s)" % (cf.rev(r["id"], r["down"], (), (), r.get("labels", ())), raw(r)) for r in g)
    if any(r.get("deps_as_label") for r in g):
        shape += "-labeldep"
    return dict(cin=cin, cout=cout, out=out, nontrivial=edges > 0, shape=shape)


def classify(human, out):
    return None

DESIGN_REF = "DESIGN.md section 5 C15"
TECHNIQUE = ("Coq proof (induction / pigeonhole over the revision list) that the modelled load rejects iff the graph is cyclic, "
             "tied to the code by an exact exhaustive small-scope correspondence evaluated with vm_compute")
LEVEL_TEXT = ("Machine-checked theorems over all finite revision graphs: the model of RevisionMap._revision_map/_detect_cycles "
              "reports a cycle error iff down_revision+depends_on edges contain a directed cycle, never runs out of fuel, and its "
              "heads/bases are the graph-theoretic ones. The model is compared exactly with the real loader on every 4-revision "
              "down-only digraph, every 3-revision digraph with dependencies and seeded random larger graphs on each run.")
LEVEL_NOTE = ("Trusted: Coq kernel+vm_compute, the hand-written model (tied by correspondence, exhaustive only up to the stated sizes), "
              "the Python harness encoders. Dependencies are given already resolved to ids; missing references are out of scope.")


def canary(human, rec):
    """corrupted outputs the decider must reject: flipped verdict, a head dropped / a non-head added"""
    out = rec["out"]
    if "err" in out:
        return ["Loaded (mkLoaded [] [] [] [])"]
    l = out["loaded"]
    bad = ["LoadErr ECycle"]
    if l["heads"]:
        bad.append("Loaded (mkLoaded %s %s %s %s)" % (cf.nlist(l["heads"][1:]), cf.nlist(l["bases"]), cf.nlist(l["real_heads"]), cf.nlist(l["real_bases"])))
    non_bases = [r["id"] for r in human if r["id"] not in l["real_bases"]]
    if non_bases:
        bad.append("Loaded (mkLoaded %s %s %s %s)" % (cf.nlist(l["heads"]), cf.nlist(l["bases"]), cf.nlist(l["real_heads"]), cf.nlist(l["real_bases"] + non_bases[:1])))
    return bad
