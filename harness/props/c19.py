"""C19 — every revision file in the configured locations is loaded exactly once.

Real directory trees are materialised under tempfile.mkdtemp() from the same tree values the model receives;
the real ScriptDirectory.from_config(...)._load_revisions() and RevisionMap are run on them; the observable
(multiset of loaded ids, number of "loaded twice" warnings, ids reported "present more than once", or the kind
of exception) is compared exactly with Model.Loader.load_revisions and judged by Spec.C19.check_C19."""
import itertools
import json
import os
import random
import shutil
import tempfile
import warnings

from harness import coqfmt as cf

PROP = "C19"
COQ = dict(imports=["Model.Loader", "Spec.C19"], in_ty="input", out_ty="res obs",
           corr="corr_C19", decide="check_C19", inclass="inclass_C19", model="load_revisions")
THEOREMS = ["C19_check_sound", "C19_check_complete", "C19_main", "C19_main_inclass", "C19_exactly_once", "C19_nothing_else",
            "C19_no_error", "C19_source_wins", "C19_dedupe", "C19_order_invariant", "C19_location_order_invariant",
            "C19_map_order_refuted", "C19_legacy_ids", "C19_duplicate_id", "C19_split_clean", "C19_rev_file_names"]
TRUSTED = [
    "file-system semantics assumed by the model (Model/Loader.v): os.walk(top, topdown=True) without followlinks visits "
    "top and every real sub-directory, lists links to directories under dirs and everything else under files; "
    "os.listdir returns every entry; os.path.exists follows links; os.path.realpath replaces a link by its target "
    "(trees use one-hop absolute links); basename/dirname/join/abspath are purely lexical",
    "importlib semantics assumed by the model: a *.py file is executed from source (a stale __pycache__ entry with a "
    "different source hash is ignored), a *.pyc / *.pyo file is executed by SourcelessFileLoader without a source, "
    "os.path.splitext loses an extension preceded only "
    "by dots",
    "Python re semantics of _sourceless_rev_file, _only_source_rev_file and _split_on_space_comma on strings without "
    "newline (file names) resp. as modelled by split_legacy; str.split / str.strip white space = ASCII+Latin-1 set",
    "os.pathsep == ':' (POSIX); the harness chdir()s into the tree root and gives relative version_locations or absolute ones "
    "written '/R/...' where '/R' is replaced by the absolute path of the tree root (a mkdtemp name without space, comma, "
    "colon, semicolon, newline); the model's paths are relative to that directory",
    "file content is abstracted to 'importable module with revision id rid (or without a `revision` attribute), identified by a "
    "tag (its docstring)' / 'not importable'; down_revision / branch_labels / depends_on are passed through by Script.__init__ "
    "(the harness checks they arrive unchanged); legacy ids are encoded 1000 + int('1' + hex, 16)",
    "listing order: the tree value handed to the model lists the entries of every directory in the order os.listdir returned "
    "them on the materialised tree (observed; os.walk's scandir order is assumed to be the same); the model sorts where the "
    "code sorts (sorted(files), dirs.sort(), not below a skipped ...__pycache__ directory); the theorems "
    "C19_order_invariant / C19_location_order_invariant quantify over every order",
]
ASSUME = [
    "wf_tree: unique names per directory; symbolic links point (absolute, one hop) at an existing regular file or "
    "directory; an entry named __pycache__ is a real directory holding only files and links to files; no name consisting "
    "of dots followed by py/pyc/pyo",
    "clean_config (needed by the correspondence, not by the theorems): every version_locations item is a relative path that "
    "stays inside the tree and is not a package resource, a non-recursive location is not named ...__pycache__",
]
RULE = ("quick: (a) EXHAUSTIVE: every subset of 8 entries {a.py,a.pyc,a.pyo,__pycache__/a.cpython-312.pyc,a.txt,__init__.py,"
        ".#a.py,sub/b.py} in sd/versions x sourceless x recursive; (b) EXHAUSTIVE: 83 version_locations strings (incl. sibling locations whose names are string prefixes of each other, and nested ones) (relative and absolute, directory names containing ':') x 7 version_path_separator values "
        "on a fixed 3-location tree; (c) seeded random trees (2500 quick / 40000 thorough; 1-3 locations, nested, "
        "overlapping, repeated, symlinked locations and files, __pycache__, duplicate ids, junk content) x all separators x "
        "recursive x sourceless, 40% of them configured through a real alembic.ini file. "
        "content: ~4% not importable, ~8% modules without `revision` (hex and non-hex file names), distinct docstring tags; observable = multiset of loaded Scripts (id+tag), 'loaded twice' count, ids reported 'present more than once', the Scripts left in RevisionMap._revision_map, or the error kind. non-trivial = at least one revision loaded or an error raised, and at least one entry ignored, de-duplicated or "
        "superseded; distinct by the encoded input")
EXHAUSTIVE = {"quick": False, "thorough": False}
CASE_TIMEOUT = 30
DESIGN_REF = "DESIGN.md section 5 C19"
TECHNIQUE = ("Coq proof over a file tree given as data (induction over the nested tree / entry lists, NoDup + membership => "
             "Permutation) that the modelled loader yields exactly the revision files selected by an independently written "
             "path-algebra reference, tied to the code by an exact correspondence on materialised directory trees")
LEVEL_TEXT = ("Machine-checked theorems for ALL well-formed file trees, location lists and settings: the model of "
              "from_config splitting / _list_py_dir / _from_filename / _load_revisions loads each expected revision file "
              "exactly once and nothing else, a source wins over compiled forms, overlapping / repeated / symlinked "
              "locations do not change the result, duplicate ids are reported k-1 times.  The three deviations found earlier "
              "(stem shadow, blank location, lone .pyo) are repaired in the code and all statements hold at full strength.  "
              "The model is compared exactly with the real ScriptDirectory on materialised trees on every run.")
LEVEL_NOTE = ("Trusted: Coq kernel+vm_compute, the hand-written model and the file-system / importlib / re assumptions listed in "
              "trusted_base (exercised but not proved by the correspondence), the Python harness.  Absolute locations outside the tree, package-resource locations, chained or relative links are outside the model.")

# all three findings of this property (C19-stem-shadow, C19-blank-location, C19-pyo-assert) are repaired: a regression is a VIOLATION

SEPS = ["none", "space", "newline", "os", ":", ";", "bad"]
SEP_COQ = {"none": "SepNone", "space": "SepSpace", "newline": "SepNewline", "os": "SepOs", ":": "SepColon",
           ";": "SepSemi", "bad": "SepBad"}
SEP_CHAR = {"space": " ", "newline": "\n", "os": ":", ":": ":", ";": ";"}


# ----------------------------------------------------------------------------- tree helpers (python mirror of wf only)
def F(name, rid):
    return ["f", name, rid]


def D(name, entries):
    return ["d", name, entries]


def L(name, target):
    return ["l", name, list(target)]


def lookup(tree, path):
    cur = ["d", "", tree]
    for comp in path:
        if cur[0] != "d":
            return None
        nxt = [e for e in cur[2] if e[1] == comp]
        if not nxt:
            return None
        cur = nxt[0]
    return cur


def is_dirlike(tree, e):
    if e[0] == "d":
        return True
    if e[0] == "l":
        t = lookup(tree, e[2])
        return t is not None and t[0] == "d"
    return False


def is_rev_name(sl, n):
    if n.startswith(".#") or n.startswith("__init__"):
        return False
    return n.endswith(".py") or (sl and (n.endswith(".pyc") or n.endswith(".pyo")))


def stem(n):
    return n.split(".")[0]


def all_dirs(tree, pre=()):
    yield pre, tree
    for e in tree:
        if e[0] == "d":
            yield from all_dirs(e[2], pre + (e[1],))


def split_items(sep, locs):
    """what from_config makes of the string (generator only: to see the last component of each location)"""
    import re
    if not locs or sep == "bad":
        return None
    if sep == "none":
        return [x for x in re.compile(r", *|(?: +)").split(locs) if x]
    return [x.strip() for x in locs.split(SEP_CHAR[sep]) if x.strip()]


def drop_broken_links(tree):
    changed = True
    while changed:
        changed = False
        for d, es in list(all_dirs(tree)):
            for e in list(es):
                if e[0] == "l":
                    t = lookup(tree, e[2])
                    if t is None or t[0] == "l":
                        es.remove(e)
                        changed = True


def norm_items(sep, locs):
    """lexically normalised last components of the configured locations (python mirror, generator only)"""
    out = []
    for it in split_items(sep, locs) or []:
        comps = []
        for c in it.split("/"):
            if c in ("", "."):
                continue
            if c == "..":
                comps = comps[:-1]
            else:
                comps.append(c)
        out.append(comps)
    return out


def repair(h):
    """keep generated cases inside the modelled universe (no broken links; a non-recursive location is not named
    ...__pycache__)"""
    drop_broken_links(h["tree"])
    if not h["rec"] and any(c and c[-1].endswith("__pycache__") for c in norm_items(h["sep"], h["locs"])):
        h["rec"] = True
    return h


def classify(h, out):
    return None


# ----------------------------------------------------------------------------- generators
def case(sep, locs, rec, sl, tree):
    return {"sep": sep, "locs": locs, "rec": rec, "sl": sl, "tree": tree}


def exhaustive_single_dir():
    items = ["a.py", "a.pyc", "a.pyo", "cache", "a.txt", "__init__.py", ".#a.py", "sub"]
    for mask in range(1 << len(items)):
        on = [items[k] for k in range(len(items)) if mask >> k & 1]
        for sl in (False, True):
            for rec in (False, True):
                es = []
                rid = 1
                for it in on:
                    if it == "cache":
                        es.append(D("__pycache__", [F("a.cpython-312.pyc", 7)]))
                    elif it == "sub":
                        es.append(D("sub", [F("b.py", 8)]))
                    else:
                        es.append(F(it, rid))
                        rid += 1
                yield case("none", None, rec, sl, [D("sd", [D("versions", es)])])


LOC_STRINGS = ["v1", "v1 v2", "v1,v2", "v1, v2", "v1:v2", "v1;v2", "v1\nv2", "v1  v2", "v1 ,v2", "v1 , v2", " v1", "v1 ",
               "v1::v2", "v1: v2 ", "v1:v2:", ":v1", "v1;;v2", "v1\n\nv2", "v1\n v2", "v1 v2 v3", "v1/sub v2", "v1/./sub",
               "v1/sub/..", "v1//sub", "v1/sub/", "./v1", "v1 v1", "lnk v1", "lnk/sub", "nope v1", "v1/a1.py", ",", ":", " ",
               "", "v1,v2,v3", "sd/versions", "v1/sub:v1", "v1 : v2", "v3/__pycache__", "/R/v:1", "/R/v:1 v2", "/R/v1,/R/v:1",
               "/R/v1:/R/v2", "v1/_squashed", "v1/sub/.staging", "/R/v1/./sub", "v1 v10", "v10,v1", "v1 v1/sub", "v1/sub v1", "/R/v1 v10/sub",
               "v10/sub v1 v10"]


# every ordered pair of locations that are siblings with prefix-related names, or nested in each other
LOC_STRINGS += ["%s %s" % (a, b) for a, b in itertools.permutations(
    ["v1", "v10", "v1/sub", "v1/sub_more", "sd/versions", "sd/versions_extra"], 2)]


def loc_tree():
    return [D("sd", [D("versions", [F("s0.py", 30)]), D("versions_extra", [F("t2.py", 14)])]),
            D("v1", [F("a1.py", 1), F("a2.py", 2), F("notes.txt", 20), D("sub", [F("a3.py", 3), D(".staging", [F("q2.py", 8)])]),
                     D("sub_more", [F("t1.py", 13)]),
                     D("_squashed", [F("q1.py", 7)])]),
            D("v:1", [F("q3.py", 9)]),
            D("v10", [F("t1.py", 11), D("sub", [F("t2.py", 12)])]),
            D("v2", [F("b1.py", 4), F("__init__.py", 21)]),
            D("v3", [F("c1.py", 5), D("__pycache__", [F("c2.cpython-312.pyc", 6)])]),
            L("lnk", ["v1"])]


def exhaustive_loc_strings():
    for s in LOC_STRINGS:
        for sep in SEPS:
            for rec in (False, True):
                if any(":" in it and not it.startswith("/R/") for it in split_items(sep, s) or []):
                    continue                      # a relative "pkg:dir" is a package resource: outside the model
                yield repair(case(sep, s, rec, False, loc_tree()))


BASES = ["a", "b", "c"]


def rand_file_name(rnd):
    b = rnd.choice(BASES)
    return rnd.choice(["%s.py", "%s.py", "%s.py", "%s.pyc", "%s.pyc", "%s.pyo", "%s.txt", "%s.py.bak", "__init__.py",
                       ".#%s.py", "__init__%s.py", "%s.x.py", "%s", "%s.pyc.py", "%s.PY", ".%s.py",
                       "%s.py.pyc", "0%s1f.py", "%sg.py", "0%s1f.pyc"]).replace("%s", b)


def rand_cache_name(rnd):
    b = rnd.choice(BASES)
    return rnd.choice(["%s.cpython-312.pyc", "%s.cpython-312.pyc", "%s.cpython-311.pyc", "%s.cpython-312.opt-1.pyc",
                       "__init__.cpython-312.pyc", "%s.pyc", "%s.txt", "%s.x.cpython-312.pyc"]).replace("%s", b)


def rand_content(rnd):
    """None: not importable; [rid, tag]: a module defining revision = 'r<rid>' (rid 0: no `revision` attribute at all),
    identified by its docstring 't<tag>' (tags are distinct within a case)"""
    r = rnd.random()
    if r < 0.04:
        return None
    rnd.c19_tag = getattr(rnd, "c19_tag", 0) % 60000 + 1
    return [0 if r < 0.12 else rnd.randint(1, 6), rnd.c19_tag]


def rand_dir_entries(rnd, depth, allow_cache=True):
    es, names = [], set()

    def add(e):
        if e[1] not in names:
            names.add(e[1])
            es.append(e)
    for _ in range(rnd.randint(0, 5)):
        add(F(rand_file_name(rnd), rand_content(rnd)))
    if allow_cache and rnd.random() < 0.45:
        ces, cn = [], set()
        for _ in range(rnd.randint(0, 3)):
            nm = rand_cache_name(rnd)
            if nm not in cn:
                cn.add(nm)
                ces.append(F(nm, rand_content(rnd)))
        add(D("__pycache__", ces))
    if depth > 0:
        for _ in range(rnd.choice([0, 0, 1, 1, 2])):
            nm = rnd.choice(["sub", "sub2", "x__pycache__", "pkg", "_squashed", ".staging", "_x", "rel:2024"])
            add(D(nm, rand_dir_entries(rnd, depth - 1)))
    return es


def real_paths(tree, want, pre=()):
    """real paths (no link component) of all files ('f') or directories ('d')"""
    out = []
    for e in tree:
        if e[0] == want:
            out.append(list(pre) + [e[1]])
        if e[0] == "d":
            out.extend(real_paths(e[2], want, pre + (e[1],)))
    return out


def rand_case(rnd):
    tops = ["v1", "v2", "v3"][:rnd.randint(1, 3)]
    tree = [D("sd", [D("versions", rand_dir_entries(rnd, 1))] if rnd.random() < 0.8 else [])]
    for t in tops:
        tree.append(D(t, rand_dir_entries(rnd, 2)))
    if rnd.random() < 0.5:
        tree.append(F(rnd.choice(["setup.py", "a.py", "b.py"]), rnd.randint(1, 6)))
    if rnd.random() < 0.3:
        tree.append(D("v:1", rand_dir_entries(rnd, 1)))
    if rnd.random() < 0.35:
        tree.append(D("v10", rand_dir_entries(rnd, 1)))           # sibling of v1 whose name has "v1" as a string prefix
    if rnd.random() < 0.25 and lookup(tree, ["sd", "versions"]):
        lookup(tree, ["sd"])[2].append(D("versions_extra", rand_dir_entries(rnd, 1)))
    if rnd.random() < 0.2:
        lookup(tree, ["v1"])[2][:] = [e for e in lookup(tree, ["v1"])[2] if e[1] != "sub_more"] + [D("sub_more", rand_dir_entries(rnd, 0))]
    # symbolic links: to directories at top level / inside directories, to files inside directories
    dirs = real_paths(tree, "d")
    files = real_paths(tree, "f")
    for _ in range(rnd.choice([0, 0, 1, 2, 3])):
        where = rnd.choice(dirs + [[]])
        if "__pycache__" in where:
            tgt_pool = [f for f in files]
        else:
            tgt_pool = files + dirs if rnd.random() < 0.6 else dirs
        if not tgt_pool:
            continue
        tgt = rnd.choice(tgt_pool)
        host = tree if not where else lookup(tree, where)[2]
        nm = rnd.choice(["lnk", "lnk.py", "l2.txt", "a.py", "b.pyc", "zz.py", "x__pycache__"])
        if lookup(tree, tgt)[0] == "d" and where == []:
            nm = rnd.choice(["lnk", "lnk2", "l__pycache__"])
        if nm in {e[1] for e in host}:
            continue
        host.append(L(nm, tgt))
    # locations
    cands = [["v1"], ["v2"], ["v3"], ["v1", "sub"], ["v2", "sub"], ["sd", "versions"], ["lnk"], ["lnk2"], ["lnk", "sub"],
             ["nope"], ["v1", "sub", ".."], ["v1", ".", "sub"], ["v1", "pkg"], ["v1", "x__pycache__"], ["v1", "__pycache__"],
             ["l__pycache__"], ["v1", "_squashed"], ["v1", ".staging"], ["v2", "_x"], ["v:1"], ["v:1", "sub"], ["v1", "rel:2024"], ["v10"], ["v10"], ["v10", "sub"], ["sd", "versions_extra"], ["v1", "sub_more"],
             ["v1"], ["v1", "sub"]]
    dirs_now = real_paths(tree, "d")
    mode = rnd.random()
    if mode < 0.15:
        locs_items = None
    else:
        k = rnd.choice([1, 1, 2, 2, 3])
        pool = [c for c in cands if rnd.random() < 0.8] + [d for d in dirs_now if rnd.random() < 0.3]
        locs_items = []
        for _ in range(k):
            it = "/".join(rnd.choice(pool or cands))
            # a relative name containing ":" is a package resource (outside the model): such directories are given
            # absolutely, "/R" standing for the root of the tree; separators that split at ":" tear them apart by design
            if ":" in it or rnd.random() < 0.2:
                it = "/R/" + it
            locs_items.append(it)
        if rnd.random() < 0.15:
            locs_items.append(locs_items[0])
    sep = rnd.choice(SEPS[:-1]) if rnd.random() < 0.97 else "bad"
    if locs_items is None:
        locs = None
    else:
        if sep == "none":
            joiner = rnd.choice([" ", ",", ", ", "  ", ",  ", " ,", " , ", ",,"])
        elif sep == "bad":
            joiner = ","
        else:
            joiner = SEP_CHAR[sep]
            if sep != "space" and rnd.random() < 0.3:
                locs_items = [rnd.choice(["", " "]) + x + rnd.choice(["", " "]) for x in locs_items]
            if rnd.random() < 0.15:
                joiner = joiner * 2          # empty items are dropped by `if x`
        locs = joiner.join(locs_items)
        if sep != "bad" and rnd.random() < 0.15:
            tail = SEP_CHAR.get(sep, rnd.choice([" ", ",", ", "]))
            locs = rnd.choice([locs + tail, tail + locs, locs + tail + " " + tail, locs + " "])
    h = case(sep, locs, rnd.random() < 0.5, rnd.random() < 0.55, tree)
    h["ini"] = rnd.random() < 0.4
    return repair(h)


def generate(tier, seed):
    rnd = random.Random(seed * 7919 + 19)
    yield from exhaustive_single_dir()
    yield from exhaustive_loc_strings()
    n = 2500 if tier == "quick" else 40000
    for _ in range(n):
        yield rand_case(rnd)


def search(tier, seed):
    rnd = random.Random(seed * 104729 + 19)
    for _ in range(6000):
        yield rand_case(rnd)


# ----------------------------------------------------------------------------- encoding
FILE_PATTERNS = ["%s.py", "%s.pyc", "%s.pyo", "%s.txt", "%s.py.bak", "__init__.py", ".#%s.py", "__init__%s.py", "%s.x.py",
                 "%s", "%s.pyc.py", "%s.PY", ".%s.py", "%s.py.pyc", "0%s1f.py", "%sg.py", "0%s1f.pyc"]
CACHE_PATTERNS = ["%s.cpython-312.pyc", "%s.cpython-311.pyc", "%s.cpython-312.opt-1.pyc", "__init__.cpython-312.pyc", "%s.pyc",
                  "%s.txt", "%s.x.cpython-312.pyc"]
OTHER_NAMES = ["sd", "versions", "v1", "v2", "v3", "sub", "sub2", "pkg", "__pycache__", "x__pycache__", "lnk", "lnk2",
               "l__pycache__", "lnk.py", "l2.txt", "zz.py", "s0.py", "a1.py", "a2.py", "a3.py", "b1.py", "c1.py", "notes.txt",
               "c2.cpython-312.pyc", "x.txt", "x.py.bak", "x.cpython-312.pyc", "x.pyo", "setup.py", "_squashed", ".staging", "_x",
               "v:1", "rel:2024", "q1.py", "q2.py", "q3.py", "v10", "versions_extra", "t1.py", "t2.py", "sub_more"]


def _name_pool():
    pool = []
    for pat in FILE_PATTERNS + CACHE_PATTERNS:
        for b in BASES:
            pool.append(pat.replace("%s", b))
    pool.extend(OTHER_NAMES)
    out = {}
    for n in pool:
        if n not in out:
            out[n] = "nm%d" % len(out)
    return out


NAME_IDS = _name_pool()
# names are defined once per case file; the cases refer to them by identifier (Coq parses numerals slowly)
COQ["preamble"] = "\n".join("Definition %s : str := %s." % (v, cf.string(k)) for k, v in NAME_IDS.items())


def coq_name(n):
    return NAME_IDS.get(n) or cf.string(n)


def content(c):
    """(rid, tag) of a file entry's content; a bare int n (older corpus files) means rid = tag = n"""
    if c is None:
        return None
    if isinstance(c, int):
        return (c, c)
    return (int(c[0]), int(c[1]))


def code(rid, tag):
    return rid * 65536 + tag


def coq_node(e):
    if e[0] == "f":
        c = content(e[2])
        return "File %s" % ("None" if c is None else "(Some %d)" % code(*c))
    if e[0] == "l":
        return "Link %s" % cf.lst(coq_name(c) for c in e[2])
    return "Dir %s" % coq_entries(e[2])


def coq_entries(es):
    return cf.lst("(%s, %s)" % (coq_name(e[1]), coq_node(e)) for e in es)


def canonical_tree(es, listdir_order, pre=()):
    """the entries of every directory in the order os.listdir returned them on the materialised tree (observed): the
    file system has no order of its own, the model does the sorting the code does"""
    pos = {n: k for k, n in enumerate(listdir_order.get(pre, []))}
    out = []
    for e in sorted(es, key=lambda e: (pos.get(e[1], 0), e[1])):
        if e[0] == "d":
            out.append(["d", e[1], canonical_tree(e[2], listdir_order, pre + (e[1],))])
        else:
            out.append(e)
    return out


def coq_input(h, listdir_order=None):
    return "mkInput %s %s %s %s (Dir %s)" % (SEP_COQ[h["sep"]], cf.opt(h["locs"], cf.string), cf.boolean(h["rec"]),
                                             cf.boolean(h["sl"]), coq_entries(canonical_tree(h["tree"], listdir_order or {})))


# ----------------------------------------------------------------------------- materialisation
_PYC = {}


def _source(rid, tag):
    return ("\"\"\"t%d\"\"\"\n%sdown_revision = None\nbranch_labels = None\ndepends_on = None\n\n\n"
            "def upgrade():\n    pass\n\n\ndef downgrade():\n    pass\n" % (tag, "revision = 'r%d'\n" % rid if rid else ""))


def _pyc_bytes(rid, tag):
    if (rid, tag) not in _PYC:
        import importlib._bootstrap_external as be
        import importlib.util
        src = _source(rid, tag).encode()
        co = compile(src, "m.py", "exec", dont_inherit=True)
        if len(_PYC) > 5000:
            _PYC.clear()
        _PYC[(rid, tag)] = bytes(be._code_to_hash_pyc(co, importlib.util.source_hash(src), True))
    return _PYC[(rid, tag)]


def script_code(s):
    """(code, rid) read back from a real Script: revision id + docstring tag"""
    rev = s.revision
    if rev[:1] == "r" and rev[1:].isdigit():
        rid = int(rev[1:])
    elif rev and all(ch in "0123456789abcdef" for ch in rev):
        rid = 1000 + int("1" + rev, 16)         # legacy id taken from a hex file name
    else:
        rid = 999                               # an id nothing in the model produces
    doc = s.doc
    if not (doc[:1] == "t" and doc[1:].isdigit()):
        raise RuntimeError("unexpected docstring %r" % doc)
    if (s.down_revision, tuple(s.branch_labels), tuple(s.dependencies or ())) != (None, (), ()):
        raise RuntimeError("module attributes changed on the way: %r" % s)
    return code(rid, int(doc[1:])), rid


def materialise(root, es, links):
    for e in es:
        p = os.path.join(root, e[1])
        if e[0] == "d":
            os.mkdir(p)
            materialise(p, e[2], links)
        elif e[0] == "l":
            links.append((p, e[2]))
        else:
            c = content(e[2])
            if c is None:
                data = b"\x00(((not python\n"
            elif e[1].endswith(".pyc") or e[1].endswith(".pyo"):
                data = _pyc_bytes(*c)
            else:
                data = _source(*c).encode()
            with open(p, "wb") as f:
                f.write(data)


LOAD_ERRORS = None


def run_case(h):
    global LOAD_ERRORS
    from alembic.config import Config
    from alembic.script import ScriptDirectory
    from alembic.script.revision import RevisionMap
    from alembic.util import CommandError
    if LOAD_ERRORS is None:
        LOAD_ERRORS = (OSError, ImportError, SyntaxError, AssertionError, NameError, ValueError, CommandError)
    root = tempfile.mkdtemp(prefix="c19-")
    old = os.getcwd()
    try:
        links = []
        materialise(root, h["tree"], links)
        for p, tgt in links:
            os.symlink(os.path.join(root, *tgt), p)
        os.chdir(root)
        opts = {"script_location": "sd"}
        if h["locs"] is not None:
            opts["version_locations"] = h["locs"].replace("/R/", root + "/")
        if h["sep"] != "none":
            opts["version_path_separator"] = "comma" if h["sep"] == "bad" else h["sep"]
        if h["rec"]:
            opts["recursive_version_locations"] = "true"
        if h["sl"]:
            opts["sourceless"] = "true"
        cfg = None
        if h.get("ini"):
            # a real alembic.ini (multi-line values indented); used only when the parser hands from_config the same string
            with open(os.path.join(root, "alembic.ini"), "w") as f:
                f.write("[alembic]\n" + "".join("%s = %s\n" % (k, v.replace(root + "/", "%(here)s/").replace("\n", "\n    "))
                                                for k, v in opts.items()))
            try:
                c2 = Config(os.path.join(root, "alembic.ini"))
                if all(c2.get_main_option(k) == v for k, v in opts.items()):
                    cfg = c2
            except Exception:
                cfg = None
            os.remove(os.path.join(root, "alembic.ini"))
        via_ini = cfg is not None
        if cfg is None:
            cfg = Config()
            for k, v in opts.items():
                cfg.set_main_option(k, v)
        out = None
        try:
            sd = ScriptDirectory.from_config(cfg)
        except ValueError:
            out = {"err": "EValue"}
        except Exception as e:
            out = {"err": "EOther", "cls": type(e).__name__}
        if out is None:
            with warnings.catch_warnings(record=True) as ws1:
                warnings.simplefilter("always")
                try:
                    scripts = list(sd._load_revisions())
                except LOAD_ERRORS as e:
                    out = {"err": "ELoad", "cls": type(e).__name__}
                except Exception as e:
                    out = {"err": "EOther", "cls": type(e).__name__}
            if out is None:
                ids = sorted(script_code(s)[0] for s in scripts)
                dups = []
                with warnings.catch_warnings(record=True) as ws2:
                    warnings.simplefilter("always")

                    def gen():
                        for s in scripts:
                            before = len(ws2)
                            yield s
                            # the consumer (RevisionMap._revision_map) has now processed s
                            dups.extend([script_code(s)[1]] * (len(ws2) - before))
                    rm = RevisionMap(gen)
                    rmap = rm._revision_map
                out = {"ids": ids, "twice": len(ws1), "dups": sorted(dups),
                       "map": sorted(script_code(v)[0] for k, v in rmap.items() if k and v is not None)}
        listdir_order = {}
        for dp, dn, fn in os.walk(root):
            rel = os.path.relpath(dp, root)
            listdir_order[() if rel == "." else tuple(rel.split(os.sep))] = os.listdir(dp)
    finally:
        os.chdir(old)
        shutil.rmtree(root, ignore_errors=True)
    if "err" in out:
        cout = "Err %s" % out["err"]
    else:
        cout = "Ok (mkObs %s %d %s %s)" % (cf.nlist(out["ids"]), out["twice"], cf.nlist(out["dups"]), cf.nlist(out["map"]))
    nfiles = len(real_paths(h["tree"], "f"))
    loaded = len(out.get("ids", ()))
    nontrivial = (loaded > 0 or "err" in out) and (nfiles > loaded or out.get("twice", 0) > 0)
    shape = "%s%s-%s%s-%s" % ("ini:" if via_ini else "", h["sep"] if h["locs"] is not None else "default",
                              "rec" if h["rec"] else "flat", "-sl" if h["sl"] else "",
                            out.get("err") or ("ok%s%s%s" % ("+twice" if out["twice"] else "", "+dup" if out["dups"] else "",
                                                               "+legacy" if any(c >= 1000 * 65536 for c in out["ids"]) else "")))
    return dict(cin=coq_input(h, listdir_order), cout=cout, out=out, nontrivial=nontrivial, shape=shape)


def canary(human, rec):
    """corruptions of the observed output that violate C19_holds for this input, one or two per clause:
    a Script lost / duplicated / its module or its revision id changed (Permutation clause), a spurious or a missing
    'present more than once' report (count clause), a map entry lost / duplicated / replaced by a Script that was never
    loaded (the three map clauses), success turned into an error and an error into success or into the other kind"""
    out = rec.get("out") or {}

    def ok(ids, dups, rmap):
        return "Ok (mkObs %s %d %s %s)" % (cf.nlist(ids), out.get("twice", 0), cf.nlist(dups), cf.nlist(rmap))
    if "err" in out:
        if out["err"] not in ("ELoad", "EValue"):
            return []
        return ["Ok (mkObs [] 0 [] [])", "Err %s" % ("EValue" if out["err"] == "ELoad" else "ELoad")]
    ids, dups, rmap = list(out["ids"]), list(out["dups"]), list(out["map"])
    res = ["Err ELoad", ok(ids, dups + [ids[0] // 65536 if ids else 1], rmap)]
    if ids:
        fresh = max(ids) + 1
        res.append(ok(ids[1:], dups, rmap))                                  # a Script lost
        res.append(ok(ids + [ids[-1]], dups, rmap))                          # a Script loaded twice
        res.append(ok(ids[:-1] + [fresh], dups, rmap))                       # another module under that revision id
        res.append(ok([ids[0] + 65536] + ids[1:], dups, rmap))               # its revision id changed
    if dups:
        res.append(ok(ids, dups[1:], rmap))                                  # a duplicate id not reported
    if rmap:
        res.append(ok(ids, dups, rmap[1:]))                                  # a revision missing from the map
        res.append(ok(ids, dups, rmap + [rmap[0]]))                          # two Scripts for one id in the map
        res.append(ok(ids, dups, rmap[:-1] + [max(ids) + 1]))                # a Script in the map that was never loaded
    return [t for t in res if t != rec["cout"]]
