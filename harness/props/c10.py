"""C10 — batch move-and-copy keeps every row and everything it was not told to change.

Real `op.batch_alter_table(t, recreate='always')` on a temp-file SQLite database holding a generated table with rows;
the table is reflected before and after (inspector + sqlite_master), rows are read with SELECT *.  The model
(Model/Batch.v: the bookkeeping of ApplyBatchImpl, evaluated with SQLAlchemy's topological sort transcribed) must
produce exactly the same table description and rows (or the same exception class); the decider check_C10 (the property
at full strength, with the abstract `edit` specification) is applied to what the real code produced.
SQLite's CAST and DEFAULT filling are oracles evaluated by separate queries.
"""
import os
import random
import shutil
import tempfile

from harness import coqfmt as cf

PROP = "C10"
COQ = dict(imports=["Model.Batch", "Spec.C10"], in_ty="input10", out_ty="output10",
           corr="corr_C10", decide="check_C10", model="model10")
THEOREMS = ["C10_decider_sound", "C10_decider_complete", "C10_main", "C10_tsort_linear_extension", "C10_schema_add", "C10_schema", "C10_rows", "C10_rows_cell", "C10_rows_default", "C10_untouched", "C10_no_temp",
            "C10_constraint_by_new_name_refuted", "C10_readd_last_column_refuted", "C10_added_column_order_refuted",
            "C10_selfref_fk_target_refuted"]
TRUSTED = [
    "sqlalchemy.util.topological.sort (SQLAlchemy's, used for column ordering): transcribed as sa_tsort for the correspondence; "
    "the theorems that involve it take it as a Section variable",
    "SQLite CAST and DEFAULT filling: oracles (j_cast, j_dflt) evaluated by separate queries on the same SQLite; the theorems hold for every cast/default function",
    "SQLAlchemy Table/Column copying, reflection and DDL spelling: the model works on table descriptions "
    "(columns: name/type token/nullable/default text; PK; named UNIQUE/CHECK/FK; indexes) obtained by the same reflection before and after",
    "SQLAlchemy _type_affinity of the catalogue types (INTEGER,BIGINT | TEXT,VARCHAR | NUMERIC) as used by SQLiteImpl.cast_for_batch_migrate",
    "the statement sequence of _create itself is C11's model (Model/BatchFail.v); C10_no_temp is proved there",
]
ASSUME = ["modelled in Model/Batch.v: __init__/_grab_table_elements (incl. the skip of unnamed CHECKs on reflected tables, named vs unnamed PK, "
          "primary_key flags), add_column + _setup_dependencies_for_add_column (with and without partial_reordering), drop_column, alter_column "
          "(+ SQLiteImpl.cast_for_batch_migrate, stacked casts), add/drop_constraint, create/drop_index, _adjust_self_columns_for_partial_reordering, "
          "_transfer_elements_to_new_table (table_args, silent omission of constraints), _gather_indexes_from_both_tables, the INSERT..SELECT mapping, "
          "BatchOperationsImpl._should_recreate / SQLiteImpl.requires_recreate_in_batch for recreate='always'|'auto'|'never' incl. the CommandError "
          "for insert_before/after and the ALTER paths; partial indexes: the reflected sqlite_where predicate is part of an index (opaque text + the column names it mentions; carried by the Index kwargs, never rewritten: CREATE INDEX fails when a mentioned column is gone); NOT modelled: table_kwargs, reflect_args/reflect_kwargs, copy_from tables that differ from the "
          "database (copy_from is driven with an identical Table), col_named_constraints, Boolean/Enum type-bound constraints, computed/identity "
          "columns, comments; naming conventions enter through the reflected names (harness), not through the Coq model",
          "existing rows satisfy the constraints the batch adds (violations are C11's subject)"]
RULE = ("table t = id INTEGER + 2-5 columns over {INTEGER,BIGINT,TEXT,VARCHAR(20),NUMERIC(10,2)} with nullability/defaults, "
        "primary key (id) or a COMPOSITE primary key over two columns mostly declared against the column order, unnamed or NAMED (30%), "
        "optional named UNIQUE / CHECK / FK to p / self-referential FK, 0-2 indexes; 0-4 rows (NULLs, quotes, unicode, 2^40, numeric-looking text); "
        "1-5 batch operations drawn from add_column (plain, insert_before/insert_after, rarely an existing name), drop_column (also columns under "
        "constraints / indexes / the PK), alter_column (rename, type, nullable, default - singly and several attributes in one call), create unique/check/foreign key (also by a column's NEW name "
        "after a rename), drop_constraint (incl. the named primary key, with type_='primary' and without type_), create_index, drop_index (also of a missing / just created one); 20% of the sequences start with a drop_column followed by an add_column "
        "inserted next to the gap it leaves; hand-written sequences first; "
        "30% of the random scenarios use recreate='auto' (60% of those restricted to add_column/create_index/drop_index so that the ALTER path is taken), "
        "25% pass copy_from. "
        "non-trivial = accepted by Alembic (no exception) with at least one row; distinct by encoded input")
EXHAUSTIVE = {"quick": False, "thorough": False}
CASE_TIMEOUT = 60
DESIGN_REF = "DESIGN.md section 5 C10"
TECHNIQUE = ("Coq refinement proof (bookkeeping of ApplyBatchImpl vs the abstract edit specification, induction over the operation list) "
             "+ exact correspondence of the executable model with the real batch recreate on SQLite tables with rows")
LEVEL_TEXT = ("Machine-checked: for every table description and every operation sequence of the proved class (drop/rename/alter column, "
              "add/drop named constraint, create/drop index, referring to columns by their key) that both the specification and the modelled "
              "Alembic accept, the new table equals the edited description, every surviving column is copied from its source (cast iff the type "
              "class changed), untouched elements are identical, and the successful statement sequence leaves no temporary table. "
              "Three deviations of the faithful model from the specification are proved as closed witnesses and reproduced on the real code.")
LEVEL_NOTE = ("The main theorem covers every operation of the model in any order and number, add_column appended or with insert_before= / "
              "insert_after= naming one of the table's own columns (the topological sort is proved to be a linear extension that keeps the existing "
              "order and therefore puts every added column into the gap the specification puts it into; C10_main, C10_tsort_linear_extension, "
              "C10_schema_add); insert_before/insert_after naming a column added by the same batch or both at once, partial_reordering, table_args, "
              "unnamed constraints, recreate='auto' are modelled, compared exactly and decided on every run but outside the main theorem; "
              "recreate='never' (no recreate: outside the property) is modelled and compared exactly; SQLite CAST/DEFAULT are oracles; reflection "
              "and DDL spelling are observed, not modelled.")

TYPES = ["INTEGER", "BIGINT", "TEXT", "VARCHAR(20)", "NUMERIC(10, 2)", "NUMERIC(10, 0)"]      # (a type argument 0)
TMPP = "_alembic_tmp_"
FINDINGS = {
    "byname": "C10-constraint-on-unknown-or-renamed-column-silently-dropped",
    "readd": "C10-add-existing-last-column-loses-its-data",
    "nbrdrop": "C10-added-column-misplaced-when-neighbour-dropped-later",
    "selfref": "C10-selfref-fk-target-not-renamed",
}


def sa_type(sa, tok):
    return [sa.Integer, sa.BigInteger, sa.Text, lambda: sa.String(20), lambda: sa.Numeric(10, 2), lambda: sa.Numeric(10, 0)][tok]()


# ----------------------------------------------------------------------------- scenarios

def base():
    return dict(cols=[["a", 0, True, None], ["b", 2, True, None], ["c", 0, True, None]],
                uniques=[["uq_c", ["c"]]], checks=[], fks=[], indexes=[["ix_b", ["b"], False]],
                rows=[[1, 1, "x", 1], [2, None, "y", 2]], ops=[])


def fixed():
    def s(ops, **kw):
        d = base(); d["ops"] = ops; d.update(kw); return d
    # partial indexes (CREATE [UNIQUE] INDEX ... WHERE ...): reflected with sqlite_where, carried over by **idx_existing.kwargs
    part = dict(indexes=[["ux_a", ["a"], True, "c > 0"], ["ix_b", ["b"], False, "b is not null"]], uniques=[])
    yield s([["alter", "a", {"nullable": False}]], rows=[[1, 1, "x", 1], [2, 1, "y", 0]], **part)   # not mentioned: kept WITH the predicate (a=1 twice is legal)
    yield s([["alter", "a", {"name": "a2"}]], **part)                                  # an indexed column renamed: predicate untouched
    yield s([["alter", "c", {"name": "c2"}]], **part)                                  # a predicate column renamed: the text still says c -> OperationalError
    yield s([["drop", "c"]], **part)                                                   # a predicate column dropped -> OperationalError
    yield s([["drop_index", "ux_a"], ["drop", "c"]], **part)
    yield s([["create_index", "ixn", ["a"], False, "c > 1"]], **part)                  # a new partial index
    yield s([["create_index", "ixn", ["a"], True, "c > 1"]], mode="auto", **part)      # ... on the ALTER path
    yield s([["alter", "c", {"name": "c2"}]], mode="never", **part)                    # SQLite's RENAME COLUMN rewrites the predicate
    yield s([["drop", "c"]], mode="never", **part)
    yield s([["alter", "b", {"type": 1}]], copy_from=True, **part)
    # boundary values of the server default: '' is a default (DEFAULT ''), not "no default"; "0"; a default that is two quotes
    dcols = [["a", 0, True, "7"], ["b", 2, True, ""], ["c", 0, True, None]]
    yield s([["alter", "a", {"default": ""}]], cols=dcols)                            # '7' -> ''
    yield s([["alter", "c", {"default": ""}]], cols=dcols)                            # none -> ''
    yield s([["alter", "c", {"default": "0"}]], cols=dcols)
    yield s([["alter", "c", {"default": "''"}]], cols=dcols)
    yield s([["alter", "b", {"default": None}]], cols=dcols)                          # '' -> none
    yield s([["alter", "c", {"nullable": False}]], cols=dcols, rows=[[1, 1, "x", 1]])  # b's DEFAULT '' is not mentioned: kept
    yield s([["add", "z", 2, False, "", None, None]], cols=dcols)                     # NOT NULL DEFAULT '': the rows get ''
    yield s([["add", "z", 0, True, "0", None, None], ["alter", "z", {"default": ""}]], cols=dcols)
    yield s([["add", "z", 2, True, "", None, None]], cols=dcols, mode="auto")         # ALTER TABLE ADD COLUMN ... DEFAULT ''
    yield s([["alter", "a", {"type": 5}], ["alter", "c", {"type": 5, "default": "0"}]], cols=dcols)   # NUMERIC(10, 0)
    # insert_before near the head of the table: the left neighbour of the SECOND column is the first one
    yield s([["add", "z", 0, True, None, "a", None]])
    yield s([["add", "h", 0, True, None, "id", None], ["add", "g", 0, True, None, "a", None]])
    yield s([["add", "g", 0, True, None, "a", None], ["add", "q", 0, True, None, "g", None]])
    yield s([["add", "g", 0, True, None, "a", None], ["add", "h", 0, True, None, "id", None]])
    yield s([["alter", "a", {"name": "a2"}], ["add_unique", "uq_a", ["a2"]]])          # constraint by NEW name: silently dropped
    yield s([["alter", "a", {"name": "a2"}], ["add_unique", "uq_a", ["a"]]])
    yield s([["alter", "a", {"name": "a2"}], ["create_index", "ix_a", ["a2"], False]])   # KeyError
    yield s([["alter", "a", {"name": "a2"}], ["create_index", "ix_a", ["a"], False]])
    yield s([["add", "z", 0, True, None, None, None], ["drop_con", "uq_c", "unique"], ["drop", "c"]])   # z lands second
    yield s([["drop", "c"]])
    yield s([["drop", "b"]])                                                            # index over b: OperationalError
    yield s([["add", "z", 0, True, None, None, None], ["drop", "z"]])                   # ValueError
    yield s([["add", "c", 2, True, None, None, None]])                                  # re-add the last column: data lost
    yield s([["drop_con", "uq_c", "unique"], ["add", "c", 2, True, None, None, None]])
    yield s([["add", "a", 2, True, None, None, None]])                                  # CircularDependencyError
    yield s([["alter", "a", {"name": "b"}]])                                            # DuplicateColumnError
    yield s([["add", "z", 0, True, None, "a", None]])
    yield s([["add", "z", 0, True, None, None, "a"], ["add", "y", 0, True, None, None, "z"]])
    yield s([["add", "z", 0, False, "7", None, None]])
    yield s([["drop_con", "uq_c", "unique"], ["drop_con", "uq_c", "unique"]])
    yield s([["create_index", "ixn", ["a"], False], ["drop_index", "ixn"]])
    yield s([["drop", "id"]])
    yield s([["alter", "a", {"type": 4, "default": "5"}]])
    yield s([["alter", "b", {"type": 0}]])
    yield s([["add_fk", "fk_a", ["a"], "t", ["id"]]])
    yield s([["add_check", "ck_a", "a >= 0 or a is null"]])
    yield s([["add_unique", "uq_c", ["a"]]])                                            # overwrites uq_c
    yield s([["drop_index", "ix_b"], ["create_index", "ix_b", ["a"], False]])
    yield s([["alter", "b", {"name": "b2"}], ["alter", "c", {"name": "c2"}]])
    yield s([["alter", "a", {"nullable": False, "default": "0"}]], rows=[[1, 1, "x", 1], [2, 5, "y", 2]])
    yield s([["alter", "a", {"name": "a2"}], ["alter", "a", {"name": "a3"}]])
    yield s([["alter", "a", {"name": "a2"}], ["alter", "a2", {"name": "a3"}]])           # KeyError
    yield s([["alter", "c", {"default": None}]], cols=[["a", 0, True, None], ["b", 2, True, None], ["c", 0, True, "7"]])
    cpk = dict(cols=[["a", 0, False, None], ["b", 2, False, None], ["c", 0, True, None]], pk=["b", "a"], rows=[[1, 1, "x", 1], [2, 5, "y", 2]])
    yield s([["add_unique", "uq_x", ["id"]]], **cpk)                                    # PK (b, a) declared against column order, untouched
    yield s([["add_check", "ck_x", "1 = 1"]], **cpk)
    yield s([["add_fk", "fk_x", ["c"], "p", ["id"]], ["drop_con", "uq_c", "unique"]], **cpk)
    yield s([["alter", "a", {"name": "a2"}], ["create_index", "ix_c", ["c"], False]], **cpk)
    yield s([["drop", "a"]], **cpk)
    yield s([["alter", "c", {"nullable": False, "default": "3"}]], rows=[[1, 1, "x", 1], [2, 5, "y", 2]])
    yield s([["alter", "c", {"nullable": True, "default": "3"}]])
    yield s([["alter", "a", {"nullable": True, "default": None}]], cols=[["a", 0, False, "7"], ["b", 2, True, None], ["c", 0, True, None]], rows=[[1, 1, "x", 1]])
    yield s([["alter", "a", {"type": 2, "nullable": True, "default": "q"}]])
    yield s([["alter", "a", {"name": "a9", "default": "4", "nullable": True}]])
    npk = dict(cols=[["a", 0, False, None], ["b", 2, True, None], ["c", 0, True, "0"]], pk=["a", "id"], pkname="pk_t", rows=[[1, 10, "x", 5], [2, 20, None, 6]])
    yield s([["drop_con", "pk_t", "primary"]], **npk)                                  # named composite PK dropped by name: no PK afterwards
    yield s([["drop_con", "pk_t", None]], **npk)
    yield s([["drop_con", "pk_t", "primary"]], mode="auto", **npk)
    yield s([["drop_con", "pk_t", "primary"]], copy_from=True, **npk)
    yield s([["drop_con", "pk_t", "primary"], ["add_unique", "uq_a", ["a"]]], **npk)
    yield s([["add_check", "ck_x", "1 = 1"]], **npk)                                    # named PK untouched
    yield s([["drop", "a"]], **npk)                                                     # PK shrinks to (id)
    yield s([["alter", "a", {"name": "a2"}], ["drop", "id"]], **npk)
    yield s([["drop_con", "pk_t", "primary"]], pkname="pk_t")
    yield s([["drop", "b"], ["add", "z", 0, True, None, None, "a"]], indexes=[])        # insert_after a, neighbour b already dropped
    yield s([["drop", "a"], ["add", "z", 0, True, None, "b", None]])                    # insert_before b, neighbour a already dropped
    yield s([["drop_con", "uq_c", "unique"], ["drop", "c"], ["add", "z", 0, True, None, None, "b"]])
    yield s([["add", "z", 0, True, None, None, "a"], ["drop", "b"]], indexes=[])        # the implicit neighbour is dropped later
    yield s([["alter", "a", {"nullable": True}]], partial=[["c", "a"]])                 # columns come out (id, b, c, a) or so: c before a
    yield s([["add", "z", 0, True, None, None, None]], partial=[["z", "id"], ["b", "a"]])
    yield s([["add", "z", 0, True, None, "a", None]], partial=[["a", "z"]])             # contradicts insert_before: CircularDependencyError
    yield s([["drop", "a"]], partial=[["c", "a", "b"]], indexes=[])
    yield s([["alter", "b", {"name": "b2"}]], partial=[["c", "b", "id"]], indexes=[])
    yield s([["alter", "a", {"nullable": True}]], targs=[["ckx0", "1 = 1"]])
    yield s([["drop_con", "uq_c", "unique"], ["drop", "c"]], targs=[["ckx0", "1 = 1"], ["ckx1", "2 = 2"]], partial=[["b", "a"]])
    un = dict(uniques=[["uq_c", ["c"]], [None, ["a"]]], fks=[[None, ["c"], "p", ["id"]]], checks=[[None, "3 > 2", None]])
    yield s([["alter", "b", {"nullable": True}]], **un)                                   # unnamed UNIQUE / FK carried, unnamed CHECK skipped (reflected)
    yield s([["alter", "b", {"nullable": True}]], copy_from=True, **un)                   # ... carried with copy_from
    yield s([["alter", "a", {"name": "a2"}]], **un)
    yield s([["drop", "a"]], **un)                                                        # the unnamed UNIQUE over a goes with it
    yield s([["alter", "b", {"nullable": True}]], nc=True, **un)                          # naming convention: they get names
    yield s([["drop_con", "uq_t_a", "unique"]], nc=True, **un)                            # ... and can be dropped by them
    yield s([["drop_con", "fk_t_c_p", "foreignkey"], ["alter", "a", {"name": "a2"}]], nc=True, **un)
    yield s([["drop_con", "uq_t_a", "unique"]], **un)                                     # without the convention: ValueError
    yield s([["create_index", "ixn", ["a"], False]], mode="auto", **un)                   # no recreate: nothing is lost
    yield s([["add", "z", 0, True, "7", None, None], ["drop", "a"], ["alter", "b", {"name": "b2"}], ["create_index", "ixn", ["b2"], False]], mode="never", indexes=[])
    yield s([["alter", "a", {"nullable": False}]], mode="never")                        # SQLite cannot: OperationalError
    yield s([["add_unique", "uq_a", ["a"]]], mode="never")                              # NotImplementedError
    yield s([["drop_con", "uq_c", "unique"]], mode="never")
    yield s([["drop", "c"]], mode="never")                                              # column of a UNIQUE constraint: refused by SQLite
    yield s([["drop", "b"]], mode="never")                                              # indexed column
    yield s([["add", "z", 0, True, None, "a", None]], mode="never")                     # CommandError
    yield s([["alter", "a", {"name": "b"}]], mode="never")
    yield s([["add", "z", 0, True, "7", None, None], ["create_index", "ix_z", ["z", "a"], False], ["drop_index", "ix_b"]], mode="auto")
    yield s([["add", "z", 0, True, None, "a", None]], mode="auto")                     # CommandError
    yield s([["drop", "a"], ["add", "z", 0, True, None, "b", None]], mode="auto")       # recreate already needed: accepted
    yield s([["add", "z", 0, True, None, "b", None], ["drop", "a"]], mode="auto")       # CommandError (decided on the ops so far)
    yield s([["add", "z", 0, False, None, None, None]], mode="auto")                   # NOT NULL without default: OperationalError
    yield s([["create_index", "ixn", ["a"], False], ["drop_index", "ixn"]], mode="auto")
    yield s([["add", "c", 2, True, None, None, None]], mode="auto")                    # duplicate column: OperationalError
    yield s([["alter", "a", {"name": "a2"}], ["drop_con", "uq_c", "unique"]], mode="auto", copy_from=True)
    yield s([["alter", "b", {"type": 0}], ["add_unique", "uq_a", ["a"]]], copy_from=True)
    yield s([["add_check", "ck_x", "1 = 1"]], copy_from=True, **cpk)


def rand_scenario(rnd):
    ncol = rnd.randint(2, 5)
    cols = [["c%d" % k, rnd.randrange(6), rnd.random() < 0.8, rnd.choice([None, None, None, "7", "x", "", "0"])] for k in range(ncol)]
    names = [c[0] for c in cols]
    nrows = rnd.choice([0, 1, 2, 3, 4])
    rows = []
    for r in range(nrows):
        row = [r + 1]
        for (n, t, nl, df) in cols:
            if nl and rnd.random() < 0.3:
                row.append(None)
            elif t in (0, 1):
                row.append(rnd.choice([r * 7 + 1, -(r + 1), 2 ** 40 + r]))
            elif t in (2, 3):
                row.append(rnd.choice(["s%d'q" % r, "té%d" % r, "%d" % (r + 12), "x%d" % r]))
            else:
                row.append(r * 3 + 2)
        rows.append(row)
    uniques, checks, fks, indexes = [], [], [], []
    pk = ["id"]
    if len(names) >= 2 and rnd.random() < 0.35:
        # unnamed composite primary key, mostly declared in an order that differs from the column order
        pkc = sorted(rnd.sample(range(len(names)), 2))
        if all(r[1 + j] is not None for r in rows for j in pkc):
            pk = [names[pkc[1]], names[pkc[0]]] if rnd.random() < 0.75 else [names[pkc[0]], names[pkc[1]]]
            for j in pkc:
                cols[j][2] = False
    if rnd.random() < 0.5:
        uniques.append(["uq1", rnd.sample(names, rnd.randint(1, min(2, len(names))))])
    if rnd.random() < 0.35:
        n = rnd.choice(names)
        checks.append(["ck1", "%s is not null or %s is null" % (n, n), n])
    if rnd.random() < 0.4:
        fks.append(["fk_p", [rnd.choice(names)], "p", ["id"]])
    if rnd.random() < 0.25:
        fks.append(["fk_self", [rnd.choice(names)], "t", ["id"]])
    for k in range(rnd.randint(0, 2)):
        indexes.append(["ix%d" % k, rnd.sample(names, rnd.randint(1, min(2, len(names)))), rnd.random() < 0.2])
        if rnd.random() < 0.3:                      # a partial index: WHERE over some column (often not an indexed one)
            indexes[-1].append("%s is not null" % rnd.choice(names))
    # unnamed constraints: carried over by position in unnamed_constraints (UNIQUE, FK), skipped when reflected (CHECK)
    used_u = {x for u in uniques for x in u[1]} | set(pk)
    cand_u = [n for n in names if n not in used_u]
    if cand_u and rnd.random() < 0.2:
        uniques.append([None, [rnd.choice(cand_u)]])
    cand_f = [n for n in names if n not in {x for f in fks for x in f[1]}]
    if cand_f and rnd.random() < 0.15:
        fks.append([None, [rnd.choice(cand_f)], "p", ["id"]])
    if rnd.random() < 0.15:
        checks.append([None, "3 > 2", None])
    nc = any(u[0] is None for u in uniques + fks) and rnd.random() < 0.5
    scn = dict(cols=cols, uniques=uniques, checks=checks, fks=fks, indexes=indexes, rows=rows, ops=[], pk=pk, nc=nc,
               pkname=("pk_t" if rnd.random() < 0.3 else None),
               mode=rnd.choice(["always"] * 12 + ["auto"] * 5 + ["never"] * 3), copy_from=rnd.random() < 0.25)
    gen_ops(rnd, scn, light=((scn["mode"] == "auto" and rnd.random() < 0.6) or (scn["mode"] == "never" and rnd.random() < 0.4)))
    if scn["mode"] == "always" and rnd.random() < 0.12:
        # partial_reordering: 1-2 tuples over the column names the batch knows (original keys and added ones)
        pool = ["id"] + names + [o[1] for o in scn["ops"] if o[0] == "add"]
        tuples = []
        for _ in range(rnd.randint(1, 2)):
            if len(pool) >= 2:
                tuples.append(rnd.sample(pool, rnd.randint(2, min(3, len(pool)))))
        scn["partial"] = tuples
    if scn["mode"] == "always" and rnd.random() < 0.1:
        scn["targs"] = [["ckx%d" % j, "%d = %d" % (j + 1, j + 1)] for j in range(rnd.randint(1, 2))]
    return scn


NAMING = {"uq": "uq_%(table_name)s_%(column_0_name)s", "fk": "fk_%(table_name)s_%(column_0_name)s_%(referred_table_name)s"}


def conv_name(kind, cols, rtable):
    return "uq_t_%s" % cols[0] if kind == "unique" else "fk_t_%s_%s" % (cols[0], rtable)


def gen_ops(rnd, scn, light=False):
    cols = {c[0]: c for c in scn["cols"]}
    cols["id"] = ["id", 0, False, None]
    keys = ["id"] + [c[0] for c in scn["cols"]]          # live keys
    curname = {k: k for k in keys}
    check_cols = {c[2] for c in scn["checks"] if c[2] is not None}
    pkcols = list(scn.get("pk", ["id"]))
    uniq_cols = set(pkcols) | {x for u in scn["uniques"] for x in u[1]} | {x for i in scn["indexes"] if i[2] for x in i[1]}
    idx_cols = {x for i in scn["indexes"] for x in i[1]}
    use_nc = bool(scn.get("nc")) and not scn.get("copy_from")
    uq_name = lambda u: u[0] if u[0] is not None else (conv_name("unique", u[1], None) if use_nc else None)
    fk_name = lambda f: f[0] if f[0] is not None else (conv_name("fk", f[1], f[2]) if use_nc else None)
    con_kind = {uq_name(u): "unique" for u in scn["uniques"]}
    con_kind.update({c[0]: "check" for c in scn["checks"]})
    con_kind.update({fk_name(f): "foreignkey" for f in scn["fks"]})
    con_kind.pop(None, None)
    con_names = list(con_kind)
    if scn.get("pkname"):
        con_names.append(scn["pkname"]); con_kind[scn["pkname"]] = "primary"
        if rnd.random() < 0.4:
            con_names.append(scn["pkname"])          # make dropping the primary key likelier
    idx_names = [i[0] for i in scn["indexes"]]
    nullfree = lambda k: k == "id" or all(r[1 + [c[0] for c in scn["cols"]].index(k)] is not None for r in scn["rows"]) if k in [c[0] for c in scn["cols"]] or k == "id" else False
    typed, added = set(), []
    fk_cols = {x for f in scn["fks"] for x in f[1]}
    uniq_sets = {u[1][0] for u in scn["uniques"] if len(u[1]) == 1}
    gap_nbrs = []
    ops = []
    if rnd.random() < 0.2 and not light:
        # drop a column, then insert a new one next to the gap it leaves
        cand = [k for k in keys if k not in check_cols and k not in idx_cols and k not in pkcols]
        if cand and len(keys) > 2:
            k = rnd.choice(cand); i = keys.index(k)
            ops.append(["drop", k])
            if i > 0:
                gap_nbrs.append(("after", keys[i - 1]))
            if i + 1 < len(keys):
                gap_nbrs.append(("before", keys[i + 1]))
            keys.remove(k)
            side, nb = rnd.choice(gap_nbrs)
            ops.append(["add", "z%d" % len(ops), rnd.randrange(6), True, rnd.choice([None, "7", ""]),
                        nb if side == "before" else None, nb if side == "after" else None])
            keys.append(ops[-1][1]); added.append(ops[-1][1]); curname[ops[-1][1]] = ops[-1][1]
    for _ in range(rnd.randint(1, 5)):
        kind = rnd.choice(["add", "add", "drop", "drop", "rename", "rename", "type", "nullable", "default", "multi", "multi", "multi", "add_unique", "add_unique",
                           "add_check", "add_fk", "drop_con", "create_index", "create_index", "drop_index", "weird"])
        if light:            # only what SQLite can do with ALTER: the batch is not recreated under recreate='auto'
            kind = rnd.choice(["add", "add", "create_index", "drop_index", "drop_index", "weird"])
        live = [k for k in keys if k not in added]
        if kind == "add":
            nm = "z%d" % len(ops)
            r = rnd.random()
            before = after = None
            if gap_nbrs and rnd.random() < 0.6:
                # next to where a column was dropped earlier in this batch (its implicit other neighbour is then the
                # column beyond the dropped one)
                side, nb = rnd.choice(gap_nbrs)
                if nb in keys:
                    if side == "after":
                        after = nb
                    else:
                        before = nb
            elif r < 0.2 and live:
                before = rnd.choice(live)
            elif r < 0.4 and keys:
                after = rnd.choice(keys)
            notnull = rnd.random() < 0.3
            ops.append(["add", nm, rnd.randrange(6), not notnull, (rnd.choice(["7", "", "0"]) if notnull else rnd.choice([None, None, "7", ""])), before, after])
            keys.append(nm); added.append(nm); curname[nm] = nm
        elif kind == "drop" and live:
            cand = [k for k in live if k not in check_cols]
            if rnd.random() < 0.8:
                cand = [k for k in cand if k not in idx_cols]
            if rnd.random() < 0.7:
                cand = [k for k in cand if k not in pkcols]
            if cand and len(keys) > 1:
                k = rnd.choice(cand); ops.append(["drop", k])
                lv = [x for x in keys if x not in added]
                if k in lv:
                    i = lv.index(k)
                    if i > 0:
                        gap_nbrs.append(("after", lv[i - 1]))
                    if i + 1 < len(lv):
                        gap_nbrs.append(("before", lv[i + 1]))
                keys.remove(k)
        elif kind == "rename" and keys:
            cand = [k for k in keys if k not in check_cols]
            if cand:
                k = rnd.choice(cand)
                nn = k + "_r%d" % len(ops) if rnd.random() < 0.95 else rnd.choice(keys)
                ops.append(["alter", k, {"name": nn}]); curname[k] = nn
        elif kind == "type" and live:
            cand = [k for k in live if k not in typed and k not in uniq_cols and k not in pkcols and k not in check_cols]
            if cand:
                k = rnd.choice(cand); typed.add(k)
                ops.append(["alter", k, {"type": rnd.randrange(6)}])
        elif kind == "multi" and keys:
            # one alter_column call changing several attributes at once, as autogenerate renders it
            k = rnd.choice(keys)
            a = {}
            want = rnd.sample(["name", "type", "nullable", "default"], rnd.randint(2, 4))
            if "name" in want and k not in check_cols:
                a["name"] = k + "_m%d" % len(ops); curname[k] = a["name"]
            if "type" in want and k in live and k not in typed and k not in uniq_cols and k not in pkcols and k not in check_cols:
                a["type"] = rnd.randrange(6); typed.add(k)
            if "nullable" in want:
                a["nullable"] = True if (k in added or not nullfree(k)) else (rnd.random() < 0.5)
                if k in pkcols:
                    a["nullable"] = False
            if "default" in want:
                a["default"] = rnd.choice(["9", "dd", "", "0"] if k in added else [None, "9", "dd", "", "0", "''"])
            if a:
                ops.append(["alter", k, a])
        elif kind == "nullable" and keys:
            k = rnd.choice(keys)
            if k in pkcols:
                ops.append(["alter", k, {"nullable": False}])
            elif k in added:
                ops.append(["alter", k, {"nullable": True}])
            elif nullfree(k):
                ops.append(["alter", k, {"nullable": rnd.random() < 0.5}])
            else:
                ops.append(["alter", k, {"nullable": True}])
        elif kind == "default" and keys:
            k = rnd.choice(keys)
            ops.append(["alter", k, {"default": rnd.choice(["9", "dd", "", "0"] if k in added else [None, "9", "dd", "", "0", "''"])}])
        elif kind == "add_unique" and live:
            k = rnd.choice([x for x in live if x not in typed] or live)
            if k in typed or pkcols == [k] or k in uniq_sets:
                continue
            uniq_cols.add(k); uniq_sets.add(k)
            ref = curname[k] if (curname[k] != k and rnd.random() < 0.5) else k       # sometimes by the NEW name
            ops.append(["add_unique", "uqn%d" % len(ops), [ref]]); con_names.append("uqn%d" % (len(ops) - 1)); con_kind[con_names[-1]] = "unique"
        elif kind == "add_check":
            ops.append(["add_check", "ckn%d" % len(ops), "1 = 1"]); con_names.append("ckn%d" % (len(ops) - 1)); con_kind[con_names[-1]] = "check"
        elif kind == "add_fk" and [k for k in keys if k not in fk_cols]:
            fk = rnd.choice([k for k in keys if k not in fk_cols]); fk_cols.add(fk)
            ops.append(["add_fk", "fkn%d" % len(ops), [fk], "p", ["id"]]); con_names.append("fkn%d" % (len(ops) - 1)); con_kind[con_names[-1]] = "foreignkey"
        elif kind == "drop_con" and con_names:
            n = rnd.choice(con_names)
            ops.append(["drop_con", n, (None if (con_kind[n] == "primary" and rnd.random() < 0.4) else con_kind[n])])
            if con_kind[n] == "primary":
                pkcols[:] = []
                con_names[:] = [x for x in con_names if x != n] + [n]
            if rnd.random() < 0.9:
                con_names.remove(n)
        elif kind == "create_index" and keys:
            cs = rnd.sample(keys, min(len(keys), rnd.randint(1, 2)))
            idx_cols |= set(cs)
            ops.append(["create_index", "ixn%d" % len(ops), cs, False])
            if rnd.random() < 0.2:
                ops[-1].append("%s is not null" % rnd.choice(keys + ["nope"] if rnd.random() < 0.1 else keys))
        elif kind == "drop_index" and idx_names:
            n = rnd.choice(idx_names); ops.append(["drop_index", n])
            if rnd.random() < 0.9:
                idx_names.remove(n)
        elif kind == "weird":
            r = rnd.random()
            if r < 0.3 and keys and keys[-1] not in uniq_cols:
                ops.append(["add", keys[-1], rnd.randrange(6), True, None, None, None])       # re-add the last column
                if keys[-1] not in added:
                    added.append(keys[-1])
            elif r < 0.5:
                ops.append(["drop_index", "ixn%d" % rnd.randint(0, 4)])
            elif r < 0.7:
                ops.append(["drop_con", "nope", "unique"])
            elif keys:
                ops.append(["alter", rnd.choice(keys) + "_r0", {"nullable": True}])
    if not ops:
        ops.append(["add", "z9", 0, True, None, None, None])
    scn["ops"] = ops


def generate(tier, seed):
    rnd = random.Random(seed * 7919 + 10)
    yield from fixed()
    for _ in range(1500 if tier == "quick" else 16000):
        yield rand_scenario(rnd)


def search(tier, seed):
    rnd = random.Random(seed * 104729 + 10)
    for _ in range(3000):
        yield rand_scenario(rnd)


# ----------------------------------------------------------------------------- Coq encoders

def oname(s):
    return "None" if s is None else "(Some %s)" % cf.string(s)


def colc(name, ty, nullable, default):
    return "(mkCol %s %d %s %s)" % (cf.string(name), ty, cf.boolean(nullable), oname(default))


def names(xs):
    return cf.lst(cf.string(x) for x in xs)


def conc(c):
    k = c["kind"]
    if k[0] == "unique":
        kk = "KUnique"
    elif k[0] == "check":
        kk = "(KCheck %d)" % k[1]
    elif k[0] == "primary":
        kk = "KPrimary"
    else:
        kk = "(KFk %s %s)" % (cf.string(k[1]), names(k[2]))
    return "(mkCon %s %s %s)" % (cf.string(c["name"]), kk, names(c["cols"]))


def wherec(w):
    return "None" if not w else "(Some (%d%%N, %s))" % (w[0], names(w[1]))


def idxc(x):
    return "(mkIndex %s %s %s %s)" % (cf.string(x["name"]), names(x["cols"]), cf.boolean(x["unique"]), wherec(x.get("where")))


_PRED_KW = {"is", "not", "null", "and", "or", "in", "like", "between"}


def pred_norm(text):
    """a partial-index predicate as (template, mentioned column names): the text with every column name replaced by its
    position among the mentioned names — SQLite's own RENAME COLUMN rewrites the names inside, alembic never does"""
    import re as _re
    t = str(text).replace('"', "")
    ment = []
    for w in _re.findall(r"[A-Za-z_][A-Za-z0-9_]*", t):
        if w.lower() not in _PRED_KW and w not in ment:
            ment.append(w)
    tpl = _re.sub(r"[A-Za-z_][A-Za-z0-9_]*", lambda m: "{%d}" % ment.index(m.group(0)) if m.group(0) in ment else m.group(0).lower(), t)
    return tpl, ment


def val(v):
    if v is None:
        return "VNull"
    if isinstance(v, bool) or isinstance(v, float):
        raise TypeError("unsupported value %r" % (v,))
    if isinstance(v, int):
        return "(VInt (%d)%%Z)" % v
    if isinstance(v, str):
        return "(VText %s)" % cf.string(v)
    raise TypeError("unsupported value %r" % (v,))


def rowsc(rows):
    return cf.lst(cf.lst(val(v) for v in r) for r in rows)


def descc(d):
    return "(mkDesc %s %s %s %s)" % (cf.lst(colc(*c) for c in d["cols"]), names(d["pk"]),
                                     cf.lst(conc(c) for c in d["cons"]), cf.lst(idxc(x) for x in d["idx"]))


def tblc(d):
    return "(mkTbl %s %s %s %s)" % (cf.lst("(%s, %s)" % (cf.string(c[0]), colc(*c)) for c in d["cols"]), names(d["pk"]),
                                    cf.lst(conc(c) for c in d["cons"]), cf.lst(idxc(x) for x in d["idx"]))


def opc(o, tok):
    k = o[0]
    if k == "add":
        return "(OAddColumn %s %s %s %s)" % (cf.string(o[1]), colc(o[1], o[2], o[3], o[4]), oname(o[5]), oname(o[6]))
    if k == "drop":
        return "(ODropColumn %s)" % cf.string(o[1])
    if k == "alter":
        a = o[2]
        ty = "(Some %d)" % a["type"] if "type" in a else "None"
        nl = "(Some %s)" % cf.boolean(a["nullable"]) if "nullable" in a else "None"
        df = "(Some %s)" % oname(a["default"]) if "default" in a else "None"
        return "(OAlterColumn %s (mkAlter %s %s %s %s))" % (cf.string(o[1]), oname(a.get("name")), ty, nl, df)
    if k == "add_unique":
        return "(OAddConstraint (mkCon %s KUnique %s))" % (cf.string(o[1]), names(o[2]))
    if k == "add_check":
        return "(OAddConstraint (mkCon %s (KCheck %d) []))" % (cf.string(o[1]), tok(o[2]))
    if k == "add_fk":
        return "(OAddConstraint (mkCon %s (KFk %s %s) %s))" % (cf.string(o[1]), cf.string(o[3]), names(o[4]), names(o[2]))
    if k == "drop_con":
        return "(ODropConstraint %s)" % cf.string(o[1])
    if k == "create_index":
        w = None
        if len(o) > 4 and o[4]:
            tpl, ment = pred_norm(o[4]); w = [tok(tpl), ment]
        return "(OCreateIndex (mkIndex %s %s %s %s))" % (cf.string(o[1]), names(o[2]), cf.boolean(o[3]), wherec(w))
    if k == "drop_index":
        return "(ODropIndex %s)" % cf.string(o[1])
    raise ValueError(o)


ERR = {"NotImplementedError": "ENotImplementedB", "CommandError": "ECommandB", "KeyError": "EKeyError", "ValueError": "EValueError", "CircularDependencyError": "ECircular",
       "DuplicateColumnError": "EDuplicateColumn", "OperationalError": "EOperationalB"}


# ----------------------------------------------------------------------------- driving the real code

def run_case(scn):
    import logging
    import warnings
    warnings.simplefilter("ignore")
    logging.disable(logging.CRITICAL)
    import sqlalchemy as sa
    from alembic.operations import Operations
    from alembic.runtime.migration import MigrationContext
    from alembic.util import CommandError

    toks = []

    def tok(text):
        t = "".join(text.lower().split()).replace("(", "").replace(")", "").replace('"', "")
        if t not in toks:
            toks.append(t)
        return toks.index(t)

    def type_tok(t):
        s = str(t).upper()
        if s not in TYPES:
            raise RuntimeError("unknown reflected type %r" % s)
        return TYPES.index(s)

    def strip_default(d):
        if d is None:
            return None
        d = str(d)
        if len(d) >= 2 and d[0] == "'" and d[-1] == "'":
            return d[1:-1].replace("''", "'")
        return d

    def reflect(conn, tname="t"):
        insp = sa.inspect(conn)
        cols = [[c["name"], type_tok(c["type"]), bool(c["nullable"]), strip_default(c["default"])] for c in insp.get_columns(tname)]
        pkc = insp.get_pk_constraint(tname)
        pk = list(pkc["constrained_columns"])
        cons = []
        if pkc.get("name") and pk:
            cons.append(dict(name=pkc["name"], kind=["primary"], cols=pk))      # a NAMED primary key is a named constraint
            pk = []
        for u in insp.get_unique_constraints(tname):
            cons.append(dict(name=u["name"], kind=["unique"], cols=list(u["column_names"])))
        for c in insp.get_check_constraints(tname):
            cons.append(dict(name=c["name"], kind=["check", tok(c["sqltext"])], cols=[]))
        for f in insp.get_foreign_keys(tname):
            cons.append(dict(name=f["name"], kind=["fk", f["referred_table"], list(f["referred_columns"])], cols=list(f["constrained_columns"])))
        uchecks = []
        for c in list(cons):
            if c["name"] is None:
                if c["kind"][0] == "check":
                    cons.remove(c); c["name"] = "\x00c"; uchecks.append(c)
                else:
                    c["name"] = "\x00" + c["kind"][0][0]        # unnamed UNIQUE / FOREIGN KEY: carried in unnamed_constraints
        cons.sort(key=lambda c: (c["name"], c["cols"]))
        idx = []
        for x in insp.get_indexes(tname):
            w = (x.get("dialect_options") or {}).get("sqlite_where")
            if w is not None:
                tpl, ment = pred_norm(w); w = [tok(tpl), ment]
            idx.append(dict(name=x["name"], cols=list(x["column_names"]), unique=bool(x["unique"]), where=w))
        idx.sort(key=lambda x: x["name"])
        return dict(cols=cols, pk=pk, cons=cons, idx=idx, uchecks=uchecks)

    td = tempfile.mkdtemp(prefix="avc10")
    try:
        path = os.path.join(td, "db.sqlite")
        e = sa.create_engine("sqlite:///" + path)
        def mk_table():
            m = sa.MetaData()
            sa.Table("p", m, sa.Column("id", sa.Integer, primary_key=True))
            pk = list(scn.get("pk", ["id"]))
            args = [sa.Column("id", sa.Integer, nullable=False)]
            for (n, t_, nl, df) in scn["cols"]:
                args.append(sa.Column(n, sa_type(sa, t_), nullable=nl, server_default=df))
            args.append(sa.PrimaryKeyConstraint(*pk, name=scn.get("pkname")))        # in declared order; unnamed or named
            for (n, cs) in scn["uniques"]:
                args.append(sa.UniqueConstraint(*cs, name=n))
            for c in scn["checks"]:
                args.append(sa.CheckConstraint(c[1], name=c[0]))
            for (n, cs, rt, rc) in scn["fks"]:
                args.append(sa.ForeignKeyConstraint(list(cs), ["%s.%s" % (rt, x) for x in rc], name=n))
            tt = sa.Table("t", m, *args)
            for ix in scn["indexes"]:
                n, cs, u = ix[0], ix[1], ix[2]
                kw = dict(sqlite_where=sa.text(ix[3])) if len(ix) > 3 and ix[3] else {}
                sa.Index(n, *[tt.c[x] for x in cs], unique=u, **kw)
            return m, tt
        m, t = mk_table()
        m.create_all(e)
        colnames = ["id"] + [c[0] for c in scn["cols"]]
        with e.begin() as c:
            for r in scn["rows"]:
                c.exec_driver_sql("insert into t (%s) values (%s)" % (",".join(colnames), ",".join("?" * len(colnames))), tuple(r))
        with e.connect() as c:
            before = reflect(c)
            rows_before = [list(r) for r in c.exec_driver_sql("select * from t").fetchall()]
            # oracles
            casts, dflts = [], []
            for o in scn["ops"]:
                if o[0] == "alter" and "type" in o[2]:
                    for v in sorted({repr(r[colnames.index(o[1])]) for r in rows_before if o[1] in colnames}):
                        pv = eval(v)
                        res = c.exec_driver_sql("select cast(? as %s)" % TYPES[o[2]["type"]], (pv,)).scalar()
                        casts.append((o[2]["type"], pv, res))
                if o[0] == "add":
                    fin, fty, fdf = o[1], o[2], o[4]          # the column as it will finally be created
                    for o2 in scn["ops"][scn["ops"].index(o) + 1:]:
                        if o2[0] == "alter" and o2[1] == o[1]:
                            fin = o2[2].get("name", fin)
                            fty = o2[2].get("type", fty)
                            if "default" in o2[2]:
                                fdf = o2[2]["default"]
                    c.exec_driver_sql("create temp table _orc (a INTEGER, z %s%s)" % (TYPES[fty], "" if fdf is None else " DEFAULT '%s'" % fdf.replace("'", "''")))
                    c.exec_driver_sql("insert into _orc (a) values (1)")
                    dflts = [d for d in dflts if d[0] != fin] + [(fin, c.exec_driver_sql("select z from _orc").scalar())]
                    c.exec_driver_sql("drop table _orc")
            c.rollback()
        err = None
        try:
            with e.begin() as c:
                op = Operations(MigrationContext.configure(c))
                bkw = {}
                if scn.get("nc"):
                    bkw["naming_convention"] = dict(NAMING)
                if scn.get("partial"):
                    bkw["partial_reordering"] = [tuple(t_) for t_ in scn["partial"]]
                if scn.get("targs"):
                    bkw["table_args"] = tuple(sa.CheckConstraint(txt, name=n) for n, txt in scn["targs"])
                if scn.get("copy_from"):
                    bkw["copy_from"] = mk_table()[1]          # a complete Table object instead of reflection
                with op.batch_alter_table("t", recreate=scn.get("mode", "always"), **bkw) as b:
                    for o in scn["ops"]:
                        k = o[0]
                        if k == "add":
                            kw = {}
                            if o[5] is not None:
                                kw["insert_before"] = o[5]
                            if o[6] is not None:
                                kw["insert_after"] = o[6]
                            b.add_column(sa.Column(o[1], sa_type(sa, o[2]), nullable=o[3], server_default=o[4]), **kw)
                        elif k == "drop":
                            b.drop_column(o[1])
                        elif k == "alter":
                            a = o[2]
                            kw = {}
                            if "name" in a:
                                kw["new_column_name"] = a["name"]
                            if "type" in a:
                                kw["type_"] = sa_type(sa, a["type"])
                            if "nullable" in a:
                                kw["nullable"] = a["nullable"]
                            if "default" in a:
                                kw["server_default"] = a["default"]
                            b.alter_column(o[1], **kw)
                        elif k == "add_unique":
                            b.create_unique_constraint(o[1], list(o[2]))
                        elif k == "add_check":
                            b.create_check_constraint(o[1], o[2])
                        elif k == "add_fk":
                            b.create_foreign_key(o[1], o[3], list(o[2]), list(o[4]))
                        elif k == "drop_con":
                            if o[2] is None:
                                b.drop_constraint(o[1])
                            else:
                                b.drop_constraint(o[1], type_=o[2])
                        elif k == "create_index":
                            kwi = dict(sqlite_where=sa.text(o[4])) if len(o) > 4 and o[4] else {}
                            b.create_index(o[1], list(o[2]), unique=bool(o[3]), **kwi)
                        elif k == "drop_index":
                            b.drop_index(o[1])
                        else:
                            raise RuntimeError("bad op %r" % (o,))
        except CommandError:
            err = "CommandError"
        except NotImplementedError:
            err = "NotImplementedError"
        except (KeyError, ValueError) as x:
            err = type(x).__name__
        except sa.exc.CircularDependencyError:
            err = "CircularDependencyError"
        except sa.exc.DuplicateColumnError:
            err = "DuplicateColumnError"
        except sa.exc.OperationalError:
            err = "OperationalError"
        except sa.exc.IntegrityError:
            err = "other:IntegrityError"
        after = rows_after = None
        tmp_left = False
        with e.connect() as c:
            tabs = [r[0] for r in c.exec_driver_sql("select name from sqlite_master where type='table'").fetchall()]
            tmp_left = any(x.startswith(TMPP) for x in tabs)
            if err is None:
                after = reflect(c)
                rows_after = [list(r) for r in c.exec_driver_sql("select * from t").fetchall()]
        e.dispose()
    finally:
        shutil.rmtree(td, ignore_errors=True)

    # the table as ApplyBatchImpl sees it: under a naming convention the reflected unnamed UNIQUE / FK constraints carry
    # the conventional names (reflection runs on MetaData(naming_convention=...)); not with copy_from
    seen = dict(before)
    recreates = scn.get("mode", "always") == "always" or (scn.get("mode") == "auto" and any(o[0] not in ("add", "create_index", "drop_index") for o in scn["ops"]))
    if scn.get("nc") and not scn.get("copy_from") and recreates:      # (no recreate: no reflection, nothing gets a name)
        seen["cons"] = []
        for c_ in before["cons"]:
            c_ = dict(c_)
            if c_["name"] == "\x00u":
                c_["name"] = conv_name("unique", c_["cols"], None)
            elif c_["name"] == "\x00f":
                c_["name"] = conv_name("fk", c_["cols"], c_["kind"][1])
            seen["cons"].append(c_)
    after_d = None
    if after is not None:
        after_d = dict(after)
        after_d["cons"] = sorted(after["cons"] + after["uchecks"], key=lambda c_: (c_["name"], c_["cols"]))
    cin = "(mkIn10 %s %s %s %s %s %s %s %s %s %s %s)" % (
        tblc(seen), rowsc(rows_before), cf.lst(opc(o, tok) for o in scn["ops"]),
        cf.lst("(%d, %s, %s)" % (t_, val(a), val(b_)) for (t_, a, b_) in casts),
        cf.lst("(%s, %s)" % (cf.string(n), val(v)) for (n, v) in dflts), cf.boolean(scn.get("mode", "always") == "always"),
        cf.lst(names(t_) for t_ in scn.get("partial") or []),
        cf.lst("(mkCon %s (KCheck %d) [])" % (cf.string(n), tok(txt)) for n, txt in scn.get("targs") or []),
        cf.boolean(not scn.get("copy_from")), cf.lst(conc(c_) for c_ in before["uchecks"]), cf.boolean(scn.get("mode") == "never"))
    if err is None:
        cout = "(OutOk %s %s %s)" % (descc(after_d), rowsc(rows_after), cf.boolean(tmp_left))
        out = dict(ok=dict(desc=after, rows=rows_after, tmp_left=tmp_left))
    else:
        cout = "(OutErr %s)" % ERR.get(err, "EOtherB")
        out = dict(err=err)
    shape = ("ok" if err is None else err.split(":")[-1]) + "-n%d" % len(scn["ops"]) + ("-auto" if scn.get("mode") == "auto" else "-never" if scn.get("mode") == "never" else "") + \
        ("-copyfrom" if scn.get("copy_from") else "") + ("-partial" if scn.get("partial") else "") + ("-targs" if scn.get("targs") else "") + \
        ("-nc" if scn.get("nc") else "") + ("-unnamed" if (before["uchecks"] or any(c_["name"].startswith("\x00") for c_ in before["cons"])) else "")
    return dict(cin=cin, cout=cout, out=out, nontrivial=bool(err is None and rows_before), shape=shape)


def classify(scn, out):
    if not out or "ok" not in out:
        return None
    d = out["ok"]["desc"]
    cur = {}
    readd = False
    byname = False
    live = ["id"] + [c[0] for c in scn["cols"]]
    for o in scn["ops"]:
        if o[0] == "alter" and "name" in o[2] and o[1] in live:
            cur[o[1]] = o[2]["name"]
        elif o[0] == "add":
            if o[1] in live:
                readd = True
            else:
                live.append(o[1])
        elif o[0] == "drop" and o[1] in live:
            live.remove(o[1])
        elif o[0] in ("add_unique", "add_fk"):
            if any(x in cur.values() and x not in live for x in o[2]):
                byname = True
    if readd:
        return FINDINGS["readd"]
    # where an added column lands: replay which neighbours _setup_dependencies_for_add_column records for every add
    try:
        existing = ["id"] + [c[0] for c in scn["cols"]]
        pairs, nbrs = [], {}
        nbrdrop = False
        for o in scn["ops"]:
            if o[0] == "add":
                before, after = o[5], o[6]
                idx = {n: i for i, n in enumerate(existing)}
                if after and not before:
                    if after in idx:
                        if idx[after] + 1 < len(existing):
                            before = existing[idx[after] + 1]
                    else:
                        before = dict(pairs)[after]
                if before and not after:
                    if before in idx:
                        if idx[before] - 1 >= 0:
                            after = existing[idx[before] - 1]
                    else:
                        after = {b_: a_ for a_, b_ in pairs}[before]
                if before:
                    pairs.append((o[1], before))
                if after:
                    pairs.append((after, o[1]))
                if not before and not after and existing:
                    after = existing[-1]
                    pairs.append((after, o[1]))
                nbrs[o[1]] = {x for x in (before, after) if x}
            elif o[0] == "drop":
                if any(o[1] in v for v in nbrs.values()):
                    nbrdrop = True
                if o[1] in existing:
                    existing.remove(o[1])
        if nbrdrop:
            return FINDINGS["nbrdrop"]
    except KeyError:
        pass
    if byname:
        return FINDINGS["byname"]
    # a column that a self-referential foreign key refers to was renamed and the recreated table still names the old column
    targets = set()
    for f in scn.get("fks") or []:
        if f[2] == "t":
            targets.update(f[3])
    for o in scn["ops"]:
        if o[0] == "add_fk" and o[3] == "t":
            targets.update(o[4])
    renamed = {k for k, n in cur.items() if n != k and k in targets}
    final_names = {c[0] for c in d["cols"]}
    for c in d["cons"]:
        if c["kind"][0] == "fk" and c["kind"][1] == "t" and any(r in renamed for r in c["kind"][2]):     # still the OLD name of a renamed column
            return FINDINGS["selfref"]
    return None


def _strings(x, acc):
    if isinstance(x, str):
        acc.add(x)
    elif isinstance(x, dict):
        for v in x.values():
            _strings(v, acc)
    elif isinstance(x, (list, tuple)):
        for v in x:
            _strings(v, acc)
    return acc


def canary(scn, rec):
    """corrupted outputs the decider must reject: a row lost, a surviving column missing from the recreated table, an untouched
    constraint missing, the temporary table left behind (recreate='never' is outside the property: no canaries there)"""
    out = rec["out"]
    if "ok" not in out or scn.get("mode") == "never":
        return []
    ok = out["ok"]
    d = dict(ok["desc"])
    d["cons"] = sorted(d["cons"] + d.get("uchecks", []), key=lambda c_: (c_["name"], c_["cols"]))
    rows = ok["rows"]
    bad = ["(OutOk %s %s true)" % (descc(d), rowsc(rows))]                                   # the temporary table is still there
    if rows:
        bad.append("(OutOk %s %s false)" % (descc(d), rowsc(rows[1:])))                     # a row lost
    ment = _strings(scn["ops"], set())
    # a surviving original column nobody mentioned disappears from the table (its values with it)
    orig = ["id"] + [c[0] for c in scn["cols"]]
    for j, c in enumerate(d["cols"]):
        if c[0] in orig and c[0] not in ment:
            d2 = dict(d, cols=d["cols"][:j] + d["cols"][j + 1:])
            bad.append("(OutOk %s %s false)" % (descc(d2), rowsc([r[:j] + r[j + 1:] for r in rows])))
            break
    # a named constraint nobody mentioned (neither it nor its columns) is gone
    for j, c in enumerate(d["cons"]):
        if not c["name"].startswith("\x00") and c["name"] not in ment and not any(x in ment for x in c["cols"]) and c["kind"][0] != "primary":
            d3 = dict(d, cons=d["cons"][:j] + d["cons"][j + 1:])
            bad.append("(OutOk %s %s false)" % (descc(d3), rowsc(rows)))
            break
    return bad
