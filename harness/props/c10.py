"""C10 — batch move-and-copy keeps every row and everything it was not told to change.

Real `op.batch_alter_table(t, recreate='always')` on a temp-file SQLite database holding a generated table with rows;
the table is reflected before and after (inspector + sqlite_master), rows are read with SELECT *.  The model
(Model/Batch.v: the bookkeeping of ApplyBatchImpl, evaluated with SQLAlchemy's topological sort transcribed) must
produce exactly the same table description and rows (or the same exception class); the decider check_C10 (the property
at full strength, with the abstract `edit` specification) is applied to what the real code produced.
SQLite's CAST and DEFAULT filling are oracles evaluated by separate queries.
"""
import os
import random
import shutil
import tempfile

from harness import coqfmt as cf

PROP = "C10"
COQ = dict(imports=["Model.Batch", "Spec.C10"], in_ty="input10", out_ty="output10",
           corr="corr_C10", decide="check_C10", model="model10")
THEOREMS = ["C10_decider_sound", "C10_main", "C10_schema", "C10_rows", "C10_rows_cell", "C10_rows_default", "C10_untouched", "C10_no_temp",
            "C10_constraint_by_new_name_refuted", "C10_readd_last_column_refuted", "C10_added_column_order_refuted"]
TRUSTED = [
    "sqlalchemy.util.topological.sort (SQLAlchemy's, used for column ordering): transcribed as sa_tsort for the correspondence; "
    "the theorems that involve it take it as a Section variable",
    "SQLite CAST and DEFAULT filling: oracles (j_cast, j_dflt) evaluated by separate queries on the same SQLite; the theorems hold for every cast/default function",
    "SQLAlchemy Table/Column copying, reflection and DDL spelling: the model works on table descriptions "
    "(columns: name/type token/nullable/default text; PK; named UNIQUE/CHECK/FK; indexes) obtained by the same reflection before and after",
    "SQLAlchemy _type_affinity of the catalogue types (INTEGER,BIGINT | TEXT,VARCHAR | NUMERIC) as used by SQLiteImpl.cast_for_batch_migrate",
    "the statement sequence of _create itself is C11's model (Model/BatchFail.v); C10_no_temp is proved there",
]
ASSUME = ["partial_reordering, naming conventions, Boolean/Enum type-bound constraints, computed/identity columns and comments are outside the model; "
          "copy_from is driven with a Table object equal to the reflected one (same model); recreate='auto' is modelled "
          "(requires_recreate / CommandError for insert_before/after / the ALTER path direct_ops) and compared, but outside the refinement theorems",
          "existing rows satisfy the constraints the batch adds (violations are C11's subject)"]
RULE = ("table t = id INTEGER + 2-5 columns over {INTEGER,BIGINT,TEXT,VARCHAR(20),NUMERIC(10,2)} with nullability/defaults, "
        "primary key (id) or a COMPOSITE primary key over two columns mostly declared against the column order, unnamed or NAMED (30%), "
        "optional named UNIQUE / CHECK / FK to p / self-referential FK, 0-2 indexes; 0-4 rows (NULLs, quotes, unicode, 2^40, numeric-looking text); "
        "1-5 batch operations drawn from add_column (plain, insert_before/insert_after, rarely an existing name), drop_column (also columns under "
        "constraints / indexes / the PK), alter_column (rename, type, nullable, default - singly and several attributes in one call), create unique/check/foreign key (also by a column's NEW name "
        "after a rename), drop_constraint (incl. the named primary key, with type_='primary' and without type_), create_index, drop_index (also of a missing / just created one); 20% of the sequences start with a drop_column followed by an add_column "
        "inserted next to the gap it leaves; hand-written sequences first; "
        "30% of the random scenarios use recreate='auto' (60% of those restricted to add_column/create_index/drop_index so that the ALTER path is taken), "
        "25% pass copy_from. "
        "non-trivial = accepted by Alembic (no exception) with at least one row; distinct by encoded input")
EXHAUSTIVE = {"quick": False, "thorough": False}
CASE_TIMEOUT = 60
DESIGN_REF = "DESIGN.md section 5 C10"
TECHNIQUE = ("Coq refinement proof (bookkeeping of ApplyBatchImpl vs the abstract edit specification, induction over the operation list) "
             "+ exact correspondence of the executable model with the real batch recreate on SQLite tables with rows")
LEVEL_TEXT = ("Machine-checked: for every table description and every operation sequence of the proved class (drop/rename/alter column, "
              "add/drop named constraint, create/drop index, referring to columns by their key) that both the specification and the modelled "
              "Alembic accept, the new table equals the edited description, every surviving column is copied from its source (cast iff the type "
              "class changed), untouched elements are identical, and the successful statement sequence leaves no temporary table. "
              "Three deviations of the faithful model from the specification are proved as closed witnesses and reproduced on the real code.")
LEVEL_NOTE = ("Partial: add_column ordering goes through SQLAlchemy's topological sort (modelled and compared on every run, not inside the "
              "order theorem); SQLite CAST/DEFAULT are oracles; reflection and DDL spelling are observed, not modelled.")

TYPES = ["INTEGER", "BIGINT", "TEXT", "VARCHAR(20)", "NUMERIC(10, 2)"]
TMPP = "_alembic_tmp_"
FINDINGS = {
    "byname": "C10-constraint-on-unknown-or-renamed-column-silently-dropped",
    "readd": "C10-add-existing-last-column-loses-its-data",
    "nbrdrop": "C10-added-column-misplaced-when-neighbour-dropped-later",
}


def sa_type(sa, tok):
    return [sa.Integer, sa.BigInteger, sa.Text, lambda: sa.String(20), lambda: sa.Numeric(10, 2)][tok]()


# ----------------------------------------------------------------------------- scenarios

def base():
    return dict(cols=[["a", 0, True, None], ["b", 2, True, None], ["c", 0, True, None]],
                uniques=[["uq_c", ["c"]]], checks=[], fks=[], indexes=[["ix_b", ["b"], False]],
                rows=[[1, 1, "x", 1], [2, None, "y", 2]], ops=[])


def fixed():
    def s(ops, **kw):
        d = base(); d["ops"] = ops; d.update(kw); return d
    yield s([["alter", "a", {"name": "a2"}], ["add_unique", "uq_a", ["a2"]]])          # constraint by NEW name: silently dropped
    yield s([["alter", "a", {"name": "a2"}], ["add_unique", "uq_a", ["a"]]])
    yield s([["alter", "a", {"name": "a2"}], ["create_index", "ix_a", ["a2"], False]])   # KeyError
    yield s([["alter", "a", {"name": "a2"}], ["create_index", "ix_a", ["a"], False]])
    yield s([["add", "z", 0, True, None, None, None], ["drop_con", "uq_c", "unique"], ["drop", "c"]])   # z lands second
    yield s([["drop", "c"]])
    yield s([["drop", "b"]])                                                            # index over b: OperationalError
    yield s([["add", "z", 0, True, None, None, None], ["drop", "z"]])                   # ValueError
    yield s([["add", "c", 2, True, None, None, None]])                                  # re-add the last column: data lost
    yield s([["drop_con", "uq_c", "unique"], ["add", "c", 2, True, None, None, None]])
    yield s([["add", "a", 2, True, None, None, None]])                                  # CircularDependencyError
    yield s([["alter", "a", {"name": "b"}]])                                            # DuplicateColumnError
    yield s([["add", "z", 0, True, None, "a", None]])
    yield s([["add", "z", 0, True, None, None, "a"], ["add", "y", 0, True, None, None, "z"]])
    yield s([["add", "z", 0, False, "7", None, None]])
    yield s([["drop_con", "uq_c", "unique"], ["drop_con", "uq_c", "unique"]])
    yield s([["create_index", "ixn", ["a"], False], ["drop_index", "ixn"]])
    yield s([["drop", "id"]])
    yield s([["alter", "a", {"type": 4, "default": "5"}]])
    yield s([["alter", "b", {"type": 0}]])
    yield s([["add_fk", "fk_a", ["a"], "t", ["id"]]])
    yield s([["add_check", "ck_a", "a >= 0 or a is null"]])
    yield s([["add_unique", "uq_c", ["a"]]])                                            # overwrites uq_c
    yield s([["drop_index", "ix_b"], ["create_index", "ix_b", ["a"], False]])
    yield s([["alter", "b", {"name": "b2"}], ["alter", "c", {"name": "c2"}]])
    yield s([["alter", "a", {"nullable": False, "default": "0"}]], rows=[[1, 1, "x", 1], [2, 5, "y", 2]])
    yield s([["alter", "a", {"name": "a2"}], ["alter", "a", {"name": "a3"}]])
    yield s([["alter", "a", {"name": "a2"}], ["alter", "a2", {"name": "a3"}]])           # KeyError
    yield s([["alter", "c", {"default": None}]], cols=[["a", 0, True, None], ["b", 2, True, None], ["c", 0, True, "7"]])
    cpk = dict(cols=[["a", 0, False, None], ["b", 2, False, None], ["c", 0, True, None]], pk=["b", "a"], rows=[[1, 1, "x", 1], [2, 5, "y", 2]])
    yield s([["add_unique", "uq_x", ["id"]]], **cpk)                                    # PK (b, a) declared against column order, untouched
    yield s([["add_check", "ck_x", "1 = 1"]], **cpk)
    yield s([["add_fk", "fk_x", ["c"], "p", ["id"]], ["drop_con", "uq_c", "unique"]], **cpk)
    yield s([["alter", "a", {"name": "a2"}], ["create_index", "ix_c", ["c"], False]], **cpk)
    yield s([["drop", "a"]], **cpk)
    yield s([["alter", "c", {"nullable": False, "default": "3"}]], rows=[[1, 1, "x", 1], [2, 5, "y", 2]])
    yield s([["alter", "c", {"nullable": True, "default": "3"}]])
    yield s([["alter", "a", {"nullable": True, "default": None}]], cols=[["a", 0, False, "7"], ["b", 2, True, None], ["c", 0, True, None]], rows=[[1, 1, "x", 1]])
    yield s([["alter", "a", {"type": 2, "nullable": True, "default": "q"}]])
    yield s([["alter", "a", {"name": "a9", "default": "4", "nullable": True}]])
    npk = dict(cols=[["a", 0, False, None], ["b", 2, True, None], ["c", 0, True, "0"]], pk=["a", "id"], pkname="pk_t", rows=[[1, 10, "x", 5], [2, 20, None, 6]])
    yield s([["drop_con", "pk_t", "primary"]], **npk)                                  # named composite PK dropped by name: no PK afterwards
    yield s([["drop_con", "pk_t", None]], **npk)
    yield s([["drop_con", "pk_t", "primary"]], mode="auto", **npk)
    yield s([["drop_con", "pk_t", "primary"]], copy_from=True, **npk)
    yield s([["drop_con", "pk_t", "primary"], ["add_unique", "uq_a", ["a"]]], **npk)
    yield s([["add_check", "ck_x", "1 = 1"]], **npk)                                    # named PK untouched
    yield s([["drop", "a"]], **npk)                                                     # PK shrinks to (id)
    yield s([["alter", "a", {"name": "a2"}], ["drop", "id"]], **npk)
    yield s([["drop_con", "pk_t", "primary"]], pkname="pk_t")
    yield s([["drop", "b"], ["add", "z", 0, True, None, None, "a"]], indexes=[])        # insert_after a, neighbour b already dropped
    yield s([["drop", "a"], ["add", "z", 0, True, None, "b", None]])                    # insert_before b, neighbour a already dropped
    yield s([["drop_con", "uq_c", "unique"], ["drop", "c"], ["add", "z", 0, True, None, None, "b"]])
    yield s([["add", "z", 0, True, None, None, "a"], ["drop", "b"]], indexes=[])        # the implicit neighbour is dropped later
    yield s([["add", "z", 0, True, "7", None, None], ["create_index", "ix_z", ["z", "a"], False], ["drop_index", "ix_b"]], mode="auto")
    yield s([["add", "z", 0, True, None, "a", None]], mode="auto")                     # CommandError
    yield s([["drop", "a"], ["add", "z", 0, True, None, "b", None]], mode="auto")       # recreate already needed: accepted
    yield s([["add", "z", 0, True, None, "b", None], ["drop", "a"]], mode="auto")       # CommandError (decided on the ops so far)
    yield s([["add", "z", 0, False, None, None, None]], mode="auto")                   # NOT NULL without default: OperationalError
    yield s([["create_index", "ixn", ["a"], False], ["drop_index", "ixn"]], mode="auto")
    yield s([["add", "c", 2, True, None, None, None]], mode="auto")                    # duplicate column: OperationalError
    yield s([["alter", "a", {"name": "a2"}], ["drop_con", "uq_c", "unique"]], mode="auto", copy_from=True)
    yield s([["alter", "b", {"type": 0}], ["add_unique", "uq_a", ["a"]]], copy_from=True)
    yield s([["add_check", "ck_x", "1 = 1"]], copy_from=True, **cpk)


def rand_scenario(rnd):
    ncol = rnd.randint(2, 5)
    cols = [["c%d" % k, rnd.randrange(5), rnd.random() < 0.8, rnd.choice([None, None, "7", "x"])] for k in range(ncol)]
    names = [c[0] for c in cols]
    nrows = rnd.choice([0, 1, 2, 3, 4])
    rows = []
    for r in range(nrows):
        row = [r + 1]
        for (n, t, nl, df) in cols:
            if nl and rnd.random() < 0.3:
                row.append(None)
            elif t in (0, 1):
                row.append(rnd.choice([r * 7 + 1, -(r + 1), 2 ** 40 + r]))
            elif t in (2, 3):
                row.append(rnd.choice(["s%d'q" % r, "té%d" % r, "%d" % (r + 12), "x%d" % r]))
            else:
                row.append(r * 3 + 2)
        rows.append(row)
    uniques, checks, fks, indexes = [], [], [], []
    pk = ["id"]
    if len(names) >= 2 and rnd.random() < 0.35:
        # unnamed composite primary key, mostly declared in an order that differs from the column order
        pkc = sorted(rnd.sample(range(len(names)), 2))
        if all(r[1 + j] is not None for r in rows for j in pkc):
            pk = [names[pkc[1]], names[pkc[0]]] if rnd.random() < 0.75 else [names[pkc[0]], names[pkc[1]]]
            for j in pkc:
                cols[j][2] = False
    if rnd.random() < 0.5:
        uniques.append(["uq1", rnd.sample(names, rnd.randint(1, min(2, len(names))))])
    if rnd.random() < 0.35:
        n = rnd.choice(names)
        checks.append(["ck1", "%s is not null or %s is null" % (n, n), n])
    if rnd.random() < 0.4:
        fks.append(["fk_p", [rnd.choice(names)], "p", ["id"]])
    if rnd.random() < 0.25:
        fks.append(["fk_self", [rnd.choice(names)], "t", ["id"]])
    for k in range(rnd.randint(0, 2)):
        indexes.append(["ix%d" % k, rnd.sample(names, rnd.randint(1, min(2, len(names)))), rnd.random() < 0.2])
    scn = dict(cols=cols, uniques=uniques, checks=checks, fks=fks, indexes=indexes, rows=rows, ops=[], pk=pk,
               pkname=("pk_t" if rnd.random() < 0.3 else None),
               mode=("auto" if rnd.random() < 0.3 else "always"), copy_from=rnd.random() < 0.25)
    gen_ops(rnd, scn, light=(scn["mode"] == "auto" and rnd.random() < 0.6))
    return scn


def gen_ops(rnd, scn, light=False):
    cols = {c[0]: c for c in scn["cols"]}
    cols["id"] = ["id", 0, False, None]
    keys = ["id"] + [c[0] for c in scn["cols"]]          # live keys
    curname = {k: k for k in keys}
    check_cols = {c[2] for c in scn["checks"]}
    pkcols = list(scn.get("pk", ["id"]))
    uniq_cols = set(pkcols) | {x for u in scn["uniques"] for x in u[1]} | {x for i in scn["indexes"] if i[2] for x in i[1]}
    idx_cols = {x for i in scn["indexes"] for x in i[1]}
    con_names = [u[0] for u in scn["uniques"]] + [c[0] for c in scn["checks"]] + [f[0] for f in scn["fks"]]
    con_kind = {u[0]: "unique" for u in scn["uniques"]}
    con_kind.update({c[0]: "check" for c in scn["checks"]})
    con_kind.update({f[0]: "foreignkey" for f in scn["fks"]})
    if scn.get("pkname"):
        con_names.append(scn["pkname"]); con_kind[scn["pkname"]] = "primary"
        if rnd.random() < 0.4:
            con_names.append(scn["pkname"])          # make dropping the primary key likelier
    idx_names = [i[0] for i in scn["indexes"]]
    nullfree = lambda k: k == "id" or all(r[1 + [c[0] for c in scn["cols"]].index(k)] is not None for r in scn["rows"]) if k in [c[0] for c in scn["cols"]] or k == "id" else False
    typed, added = set(), []
    fk_cols = {x for f in scn["fks"] for x in f[1]}
    uniq_sets = {u[1][0] for u in scn["uniques"] if len(u[1]) == 1}
    gap_nbrs = []
    ops = []
    if rnd.random() < 0.2 and not light:
        # drop a column, then insert a new one next to the gap it leaves
        cand = [k for k in keys if k not in check_cols and k not in idx_cols and k not in pkcols]
        if cand and len(keys) > 2:
            k = rnd.choice(cand); i = keys.index(k)
            ops.append(["drop", k])
            if i > 0:
                gap_nbrs.append(("after", keys[i - 1]))
            if i + 1 < len(keys):
                gap_nbrs.append(("before", keys[i + 1]))
            keys.remove(k)
            side, nb = rnd.choice(gap_nbrs)
            ops.append(["add", "z%d" % len(ops), rnd.randrange(5), True, rnd.choice([None, "7"]),
                        nb if side == "before" else None, nb if side == "after" else None])
            keys.append(ops[-1][1]); added.append(ops[-1][1]); curname[ops[-1][1]] = ops[-1][1]
    for _ in range(rnd.randint(1, 5)):
        kind = rnd.choice(["add", "add", "drop", "drop", "rename", "rename", "type", "nullable", "default", "multi", "multi", "multi", "add_unique", "add_unique",
                           "add_check", "add_fk", "drop_con", "create_index", "create_index", "drop_index", "weird"])
        if light:            # only what SQLite can do with ALTER: the batch is not recreated under recreate='auto'
            kind = rnd.choice(["add", "add", "create_index", "drop_index", "drop_index", "weird"])
        live = [k for k in keys if k not in added]
        if kind == "add":
            nm = "z%d" % len(ops)
            r = rnd.random()
            before = after = None
            if gap_nbrs and rnd.random() < 0.6:
                # next to where a column was dropped earlier in this batch (its implicit other neighbour is then the
                # column beyond the dropped one)
                side, nb = rnd.choice(gap_nbrs)
                if nb in keys:
                    if side == "after":
                        after = nb
                    else:
                        before = nb
            elif r < 0.2 and live:
                before = rnd.choice(live)
            elif r < 0.4 and keys:
                after = rnd.choice(keys)
            notnull = rnd.random() < 0.3
            ops.append(["add", nm, rnd.randrange(5), not notnull, ("7" if notnull else rnd.choice([None, None, "7"])), before, after])
            keys.append(nm); added.append(nm); curname[nm] = nm
        elif kind == "drop" and live:
            cand = [k for k in live if k not in check_cols]
            if rnd.random() < 0.8:
                cand = [k for k in cand if k not in idx_cols]
            if rnd.random() < 0.7:
                cand = [k for k in cand if k not in pkcols]
            if cand and len(keys) > 1:
                k = rnd.choice(cand); ops.append(["drop", k])
                lv = [x for x in keys if x not in added]
                if k in lv:
                    i = lv.index(k)
                    if i > 0:
                        gap_nbrs.append(("after", lv[i - 1]))
                    if i + 1 < len(lv):
                        gap_nbrs.append(("before", lv[i + 1]))
                keys.remove(k)
        elif kind == "rename" and keys:
            cand = [k for k in keys if k not in check_cols]
            if cand:
                k = rnd.choice(cand)
                nn = k + "_r%d" % len(ops) if rnd.random() < 0.95 else rnd.choice(keys)
                ops.append(["alter", k, {"name": nn}]); curname[k] = nn
        elif kind == "type" and live:
            cand = [k for k in live if k not in typed and k not in uniq_cols and k not in pkcols and k not in check_cols]
            if cand:
                k = rnd.choice(cand); typed.add(k)
                ops.append(["alter", k, {"type": rnd.randrange(5)}])
        elif kind == "multi" and keys:
            # one alter_column call changing several attributes at once, as autogenerate renders it
            k = rnd.choice(keys)
            a = {}
            want = rnd.sample(["name", "type", "nullable", "default"], rnd.randint(2, 4))
            if "name" in want and k not in check_cols:
                a["name"] = k + "_m%d" % len(ops); curname[k] = a["name"]
            if "type" in want and k in live and k not in typed and k not in uniq_cols and k not in pkcols and k not in check_cols:
                a["type"] = rnd.randrange(5); typed.add(k)
            if "nullable" in want:
                a["nullable"] = True if (k in added or not nullfree(k)) else (rnd.random() < 0.5)
                if k in pkcols:
                    a["nullable"] = False
            if "default" in want:
                a["default"] = rnd.choice(["9", "dd"] if k in added else [None, "9", "dd"])
            if a:
                ops.append(["alter", k, a])
        elif kind == "nullable" and keys:
            k = rnd.choice(keys)
            if k in pkcols:
                ops.append(["alter", k, {"nullable": False}])
            elif k in added:
                ops.append(["alter", k, {"nullable": True}])
            elif nullfree(k):
                ops.append(["alter", k, {"nullable": rnd.random() < 0.5}])
            else:
                ops.append(["alter", k, {"nullable": True}])
        elif kind == "default" and keys:
            k = rnd.choice(keys)
            ops.append(["alter", k, {"default": rnd.choice(["9", "dd"] if k in added else [None, "9", "dd"])}])
        elif kind == "add_unique" and live:
            k = rnd.choice([x for x in live if x not in typed] or live)
            if k in typed or pkcols == [k] or k in uniq_sets:
                continue
            uniq_cols.add(k); uniq_sets.add(k)
            ref = curname[k] if (curname[k] != k and rnd.random() < 0.5) else k       # sometimes by the NEW name
            ops.append(["add_unique", "uqn%d" % len(ops), [ref]]); con_names.append("uqn%d" % (len(ops) - 1)); con_kind[con_names[-1]] = "unique"
        elif kind == "add_check":
            ops.append(["add_check", "ckn%d" % len(ops), "1 = 1"]); con_names.append("ckn%d" % (len(ops) - 1)); con_kind[con_names[-1]] = "check"
        elif kind == "add_fk" and [k for k in keys if k not in fk_cols]:
            fk = rnd.choice([k for k in keys if k not in fk_cols]); fk_cols.add(fk)
            ops.append(["add_fk", "fkn%d" % len(ops), [fk], "p", ["id"]]); con_names.append("fkn%d" % (len(ops) - 1)); con_kind[con_names[-1]] = "foreignkey"
        elif kind == "drop_con" and con_names:
            n = rnd.choice(con_names)
            ops.append(["drop_con", n, (None if (con_kind[n] == "primary" and rnd.random() < 0.4) else con_kind[n])])
            if con_kind[n] == "primary":
                pkcols[:] = []
                con_names[:] = [x for x in con_names if x != n] + [n]
            if rnd.random() < 0.9:
                con_names.remove(n)
        elif kind == "create_index" and keys:
            cs = rnd.sample(keys, min(len(keys), rnd.randint(1, 2)))
            idx_cols |= set(cs)
            ops.append(["create_index", "ixn%d" % len(ops), cs, False])
        elif kind == "drop_index" and idx_names:
            n = rnd.choice(idx_names); ops.append(["drop_index", n])
            if rnd.random() < 0.9:
                idx_names.remove(n)
        elif kind == "weird":
            r = rnd.random()
            if r < 0.3 and keys and keys[-1] not in uniq_cols:
                ops.append(["add", keys[-1], rnd.randrange(5), True, None, None, None])       # re-add the last column
                if keys[-1] not in added:
                    added.append(keys[-1])
            elif r < 0.5:
                ops.append(["drop_index", "ixn%d" % rnd.randint(0, 4)])
            elif r < 0.7:
                ops.append(["drop_con", "nope", "unique"])
            elif keys:
                ops.append(["alter", rnd.choice(keys) + "_r0", {"nullable": True}])
    if not ops:
        ops.append(["add", "z9", 0, True, None, None, None])
    scn["ops"] = ops


def generate(tier, seed):
    rnd = random.Random(seed * 7919 + 10)
    yield from fixed()
    for _ in range(1500 if tier == "quick" else 16000):
        yield rand_scenario(rnd)


def search(tier, seed):
    rnd = random.Random(seed * 104729 + 10)
    for _ in range(3000):
        yield rand_scenario(rnd)


# ----------------------------------------------------------------------------- Coq encoders

def oname(s):
    return "None" if s is None else "(Some %s)" % cf.string(s)


def colc(name, ty, nullable, default):
    return "(mkCol %s %d %s %s)" % (cf.string(name), ty, cf.boolean(nullable), oname(default))


def names(xs):
    return cf.lst(cf.string(x) for x in xs)


def conc(c):
    k = c["kind"]
    if k[0] == "unique":
        kk = "KUnique"
    elif k[0] == "check":
        kk = "(KCheck %d)" % k[1]
    elif k[0] == "primary":
        kk = "KPrimary"
    else:
        kk = "(KFk %s %s)" % (cf.string(k[1]), names(k[2]))
    return "(mkCon %s %s %s)" % (cf.string(c["name"]), kk, names(c["cols"]))


def idxc(x):
    return "(mkIndex %s %s %s)" % (cf.string(x["name"]), names(x["cols"]), cf.boolean(x["unique"]))


def val(v):
    if v is None:
        return "VNull"
    if isinstance(v, bool) or isinstance(v, float):
        raise TypeError("unsupported value %r" % (v,))
    if isinstance(v, int):
        return "(VInt (%d)%%Z)" % v
    if isinstance(v, str):
        return "(VText %s)" % cf.string(v)
    raise TypeError("unsupported value %r" % (v,))


def rowsc(rows):
    return cf.lst(cf.lst(val(v) for v in r) for r in rows)


def descc(d):
    return "(mkDesc %s %s %s %s)" % (cf.lst(colc(*c) for c in d["cols"]), names(d["pk"]),
                                     cf.lst(conc(c) for c in d["cons"]), cf.lst(idxc(x) for x in d["idx"]))


def tblc(d):
    return "(mkTbl %s %s %s %s)" % (cf.lst("(%s, %s)" % (cf.string(c[0]), colc(*c)) for c in d["cols"]), names(d["pk"]),
                                    cf.lst(conc(c) for c in d["cons"]), cf.lst(idxc(x) for x in d["idx"]))


def opc(o, tok):
    k = o[0]
    if k == "add":
        return "(OAddColumn %s %s %s %s)" % (cf.string(o[1]), colc(o[1], o[2], o[3], o[4]), oname(o[5]), oname(o[6]))
    if k == "drop":
        return "(ODropColumn %s)" % cf.string(o[1])
    if k == "alter":
        a = o[2]
        ty = "(Some %d)" % a["type"] if "type" in a else "None"
        nl = "(Some %s)" % cf.boolean(a["nullable"]) if "nullable" in a else "None"
        df = "(Some %s)" % oname(a["default"]) if "default" in a else "None"
        return "(OAlterColumn %s (mkAlter %s %s %s %s))" % (cf.string(o[1]), oname(a.get("name")), ty, nl, df)
    if k == "add_unique":
        return "(OAddConstraint (mkCon %s KUnique %s))" % (cf.string(o[1]), names(o[2]))
    if k == "add_check":
        return "(OAddConstraint (mkCon %s (KCheck %d) []))" % (cf.string(o[1]), tok(o[2]))
    if k == "add_fk":
        return "(OAddConstraint (mkCon %s (KFk %s %s) %s))" % (cf.string(o[1]), cf.string(o[3]), names(o[4]), names(o[2]))
    if k == "drop_con":
        return "(ODropConstraint %s)" % cf.string(o[1])
    if k == "create_index":
        return "(OCreateIndex (mkIndex %s %s %s))" % (cf.string(o[1]), names(o[2]), cf.boolean(o[3]))
    if k == "drop_index":
        return "(ODropIndex %s)" % cf.string(o[1])
    raise ValueError(o)


ERR = {"CommandError": "ECommandB", "KeyError": "EKeyError", "ValueError": "EValueError", "CircularDependencyError": "ECircular",
       "DuplicateColumnError": "EDuplicateColumn", "OperationalError": "EOperationalB"}


# ----------------------------------------------------------------------------- driving the real code

def run_case(scn):
    import logging
    import warnings
    warnings.simplefilter("ignore")
    logging.disable(logging.CRITICAL)
    import sqlalchemy as sa
    from alembic.operations import Operations
    from alembic.runtime.migration import MigrationContext
    from alembic.util import CommandError

    toks = []

    def tok(text):
        t = "".join(text.lower().split()).replace("(", "").replace(")", "").replace('"', "")
        if t not in toks:
            toks.append(t)
        return toks.index(t)

    def type_tok(t):
        s = str(t).upper()
        if s not in TYPES:
            raise RuntimeError("unknown reflected type %r" % s)
        return TYPES.index(s)

    def strip_default(d):
        if d is None:
            return None
        d = str(d)
        if len(d) >= 2 and d[0] == "'" and d[-1] == "'":
            return d[1:-1].replace("''", "'")
        return d

    def reflect(conn, tname="t"):
        insp = sa.inspect(conn)
        cols = [[c["name"], type_tok(c["type"]), bool(c["nullable"]), strip_default(c["default"])] for c in insp.get_columns(tname)]
        pkc = insp.get_pk_constraint(tname)
        pk = list(pkc["constrained_columns"])
        cons = []
        if pkc.get("name") and pk:
            cons.append(dict(name=pkc["name"], kind=["primary"], cols=pk))      # a NAMED primary key is a named constraint
            pk = []
        for u in insp.get_unique_constraints(tname):
            cons.append(dict(name=u["name"], kind=["unique"], cols=list(u["column_names"])))
        for c in insp.get_check_constraints(tname):
            cons.append(dict(name=c["name"], kind=["check", tok(c["sqltext"])], cols=[]))
        for f in insp.get_foreign_keys(tname):
            cons.append(dict(name=f["name"], kind=["fk", f["referred_table"], list(f["referred_columns"])], cols=list(f["constrained_columns"])))
        for c in cons:
            if c["name"] is None:
                raise RuntimeError("unnamed constraint reflected")
        cons.sort(key=lambda c: c["name"])
        idx = sorted((dict(name=x["name"], cols=list(x["column_names"]), unique=bool(x["unique"])) for x in insp.get_indexes(tname)),
                     key=lambda x: x["name"])
        return dict(cols=cols, pk=pk, cons=cons, idx=idx)

    td = tempfile.mkdtemp(prefix="avc10")
    try:
        path = os.path.join(td, "db.sqlite")
        e = sa.create_engine("sqlite:///" + path)
        def mk_table():
            m = sa.MetaData()
            sa.Table("p", m, sa.Column("id", sa.Integer, primary_key=True))
            pk = list(scn.get("pk", ["id"]))
            args = [sa.Column("id", sa.Integer, nullable=False)]
            for (n, t_, nl, df) in scn["cols"]:
                args.append(sa.Column(n, sa_type(sa, t_), nullable=nl, server_default=df))
            args.append(sa.PrimaryKeyConstraint(*pk, name=scn.get("pkname")))        # in declared order; unnamed or named
            for (n, cs) in scn["uniques"]:
                args.append(sa.UniqueConstraint(*cs, name=n))
            for c in scn["checks"]:
                args.append(sa.CheckConstraint(c[1], name=c[0]))
            for (n, cs, rt, rc) in scn["fks"]:
                args.append(sa.ForeignKeyConstraint(list(cs), ["%s.%s" % (rt, x) for x in rc], name=n))
            tt = sa.Table("t", m, *args)
            for (n, cs, u) in scn["indexes"]:
                sa.Index(n, *[tt.c[x] for x in cs], unique=u)
            return m, tt
        m, t = mk_table()
        m.create_all(e)
        colnames = ["id"] + [c[0] for c in scn["cols"]]
        with e.begin() as c:
            for r in scn["rows"]:
                c.exec_driver_sql("insert into t (%s) values (%s)" % (",".join(colnames), ",".join("?" * len(colnames))), tuple(r))
        with e.connect() as c:
            before = reflect(c)
            rows_before = [list(r) for r in c.exec_driver_sql("select * from t").fetchall()]
            # oracles
            casts, dflts = [], []
            for o in scn["ops"]:
                if o[0] == "alter" and "type" in o[2]:
                    for v in sorted({repr(r[colnames.index(o[1])]) for r in rows_before if o[1] in colnames}):
                        pv = eval(v)
                        res = c.exec_driver_sql("select cast(? as %s)" % TYPES[o[2]["type"]], (pv,)).scalar()
                        casts.append((o[2]["type"], pv, res))
                if o[0] == "add":
                    fin, fty, fdf = o[1], o[2], o[4]          # the column as it will finally be created
                    for o2 in scn["ops"][scn["ops"].index(o) + 1:]:
                        if o2[0] == "alter" and o2[1] == o[1]:
                            fin = o2[2].get("name", fin)
                            fty = o2[2].get("type", fty)
                            if "default" in o2[2]:
                                fdf = o2[2]["default"]
                    c.exec_driver_sql("create temp table _orc (a INTEGER, z %s%s)" % (TYPES[fty], "" if fdf is None else " DEFAULT '%s'" % fdf))
                    c.exec_driver_sql("insert into _orc (a) values (1)")
                    dflts = [d for d in dflts if d[0] != fin] + [(fin, c.exec_driver_sql("select z from _orc").scalar())]
                    c.exec_driver_sql("drop table _orc")
            c.rollback()
        err = None
        try:
            with e.begin() as c:
                op = Operations(MigrationContext.configure(c))
                bkw = {}
                if scn.get("copy_from"):
                    bkw["copy_from"] = mk_table()[1]          # a complete Table object instead of reflection
                with op.batch_alter_table("t", recreate=scn.get("mode", "always"), **bkw) as b:
                    for o in scn["ops"]:
                        k = o[0]
                        if k == "add":
                            kw = {}
                            if o[5] is not None:
                                kw["insert_before"] = o[5]
                            if o[6] is not None:
                                kw["insert_after"] = o[6]
                            b.add_column(sa.Column(o[1], sa_type(sa, o[2]), nullable=o[3], server_default=o[4]), **kw)
                        elif k == "drop":
                            b.drop_column(o[1])
                        elif k == "alter":
                            a = o[2]
                            kw = {}
                            if "name" in a:
                                kw["new_column_name"] = a["name"]
                            if "type" in a:
                                kw["type_"] = sa_type(sa, a["type"])
                            if "nullable" in a:
                                kw["nullable"] = a["nullable"]
                            if "default" in a:
                                kw["server_default"] = a["default"]
                            b.alter_column(o[1], **kw)
                        elif k == "add_unique":
                            b.create_unique_constraint(o[1], list(o[2]))
                        elif k == "add_check":
                            b.create_check_constraint(o[1], o[2])
                        elif k == "add_fk":
                            b.create_foreign_key(o[1], o[3], list(o[2]), list(o[4]))
                        elif k == "drop_con":
                            if o[2] is None:
                                b.drop_constraint(o[1])
                            else:
                                b.drop_constraint(o[1], type_=o[2])
                        elif k == "create_index":
                            b.create_index(o[1], list(o[2]), unique=bool(o[3]))
                        elif k == "drop_index":
                            b.drop_index(o[1])
                        else:
                            raise RuntimeError("bad op %r" % (o,))
        except CommandError:
            err = "CommandError"
        except (KeyError, ValueError) as x:
            err = type(x).__name__
        except sa.exc.CircularDependencyError:
            err = "CircularDependencyError"
        except sa.exc.DuplicateColumnError:
            err = "DuplicateColumnError"
        except sa.exc.OperationalError:
            err = "OperationalError"
        except sa.exc.IntegrityError:
            err = "other:IntegrityError"
        after = rows_after = None
        tmp_left = False
        with e.connect() as c:
            tabs = [r[0] for r in c.exec_driver_sql("select name from sqlite_master where type='table'").fetchall()]
            tmp_left = any(x.startswith(TMPP) for x in tabs)
            if err is None:
                after = reflect(c)
                rows_after = [list(r) for r in c.exec_driver_sql("select * from t").fetchall()]
        e.dispose()
    finally:
        shutil.rmtree(td, ignore_errors=True)

    # check texts of added checks must be interned too, before encoding the ops
    cin = "(mkIn10 %s %s %s %s %s %s)" % (
        tblc(before), rowsc(rows_before), cf.lst(opc(o, tok) for o in scn["ops"]),
        cf.lst("(%d, %s, %s)" % (t_, val(a), val(b_)) for (t_, a, b_) in casts),
        cf.lst("(%s, %s)" % (cf.string(n), val(v)) for (n, v) in dflts), cf.boolean(scn.get("mode", "always") == "always"))
    if err is None:
        cout = "(OutOk %s %s %s)" % (descc(after), rowsc(rows_after), cf.boolean(tmp_left))
        out = dict(ok=dict(desc=after, rows=rows_after, tmp_left=tmp_left))
    else:
        cout = "(OutErr %s)" % ERR.get(err, "EOtherB")
        out = dict(err=err)
    shape = ("ok" if err is None else err.split(":")[-1]) + "-n%d" % len(scn["ops"]) + ("-auto" if scn.get("mode") == "auto" else "") + \
        ("-copyfrom" if scn.get("copy_from") else "")
    return dict(cin=cin, cout=cout, out=out, nontrivial=bool(err is None and rows_before), shape=shape)


def classify(scn, out):
    if not out or "ok" not in out:
        return None
    d = out["ok"]["desc"]
    cur = {}
    readd = False
    byname = False
    live = ["id"] + [c[0] for c in scn["cols"]]
    for o in scn["ops"]:
        if o[0] == "alter" and "name" in o[2] and o[1] in live:
            cur[o[1]] = o[2]["name"]
        elif o[0] == "add":
            if o[1] in live:
                readd = True
            else:
                live.append(o[1])
        elif o[0] == "drop" and o[1] in live:
            live.remove(o[1])
        elif o[0] in ("add_unique", "add_fk"):
            if any(x in cur.values() and x not in live for x in o[2]):
                byname = True
    if readd:
        return FINDINGS["readd"]
    # where an added column lands: replay which neighbours _setup_dependencies_for_add_column records for every add
    try:
        existing = ["id"] + [c[0] for c in scn["cols"]]
        pairs, nbrs = [], {}
        nbrdrop = False
        for o in scn["ops"]:
            if o[0] == "add":
                before, after = o[5], o[6]
                idx = {n: i for i, n in enumerate(existing)}
                if after and not before:
                    if after in idx:
                        if idx[after] + 1 < len(existing):
                            before = existing[idx[after] + 1]
                    else:
                        before = dict(pairs)[after]
                if before and not after:
                    if before in idx:
                        if idx[before] - 1 >= 0:
                            after = existing[idx[before] - 1]
                    else:
                        after = {b_: a_ for a_, b_ in pairs}[before]
                if before:
                    pairs.append((o[1], before))
                if after:
                    pairs.append((after, o[1]))
                if not before and not after and existing:
                    after = existing[-1]
                    pairs.append((after, o[1]))
                nbrs[o[1]] = {x for x in (before, after) if x}
            elif o[0] == "drop":
                if any(o[1] in v for v in nbrs.values()):
                    nbrdrop = True
                if o[1] in existing:
                    existing.remove(o[1])
        if nbrdrop:
            return FINDINGS["nbrdrop"]
    except KeyError:
        pass
    if byname:
        return FINDINGS["byname"]
    return None
