"""C13 — alter_column changes only what it was asked to change, on every dialect.

Real `op.alter_column(...)` in offline (`as_sql`) mode on seven dialects vs Model.AlterCol.plan.
The emitted SQL text is parsed, strictly and per dialect, into the abstract statement alphabet of
coq/Model/AlterCol.v by the tokenizer below (trusted glue: anything it does not recognise is a
harness error, never silently dropped)."""
import io
import itertools
import random
import re
import warnings

PROP = "C13"
COQ = dict(imports=["Model.AlterCol", "Spec.C13"], in_ty="c13_in", out_ty="out",
           corr="corr_C13", decide="check_C13", model="model_C13")
THEOREMS = ["C13_sem_is_assign", "C13_decider_sound", "C13_model_holds_partial", "C13_effect", "C13_restated",
            "C13_raises_instead", "C13_raises_iff_unsupported", "C13_toimpl_frame", "C13_autoinc_ignored", "C13_autoinc_ignored_refuted",
            "C13_stated_enough_exact", "C13_stated_enough_minimal"]
TRUSTED = [
    "C13 statement tokenizer in harness/props/c13.py (SQL text -> abstract statements; strict per dialect, fails loudly)",
    "abstract meaning `sem` of each statement on a column state (MySQL CHANGE/MODIFY replace the whole definition; "
    "MSSQL ALTER COLUMN without NULL/NOT NULL makes the column nullable; Oracle DEFAULT NULL / COMMENT '' clear)",
    "SQLAlchemy type / default / literal rendering is an opaque token (one token per catalogue value and dialect)",
]
ASSUME = [
    "server defaults are plain strings (no Identity / Computed), comments are non-empty strings",
    "type-bound CHECK constraints (Boolean / non-native Enum with create_constraint=True) are named; which constraint "
    "toimpl's _count_constraint accepts for a type on a dialect is SQLAlchemy's create rule, observed by the harness and given to "
    "the model as ty_ck; DROP/ADD CONSTRAINT are modelled as leaving the six column attributes alone (the constraint itself is not "
    "a modelled attribute: e.g. MySQL/SQLite skipping the DROP is reproduced by the model but not judged)",
    "whether the backend accepts the spelling (SQLite has no ALTER COLUMN; MSSQL rejects ADD DEFAULT when a default is "
    "bound) is not part of the statement; non-batch mode only",
]
DESIGN_REF = "DESIGN.md section 5 C13"
TECHNIQUE = ("Coq proofs by case analysis over the presence lattice with abstract values (types/defaults/comments/names are "
             "arbitrary N) about a two-layer Gallina transcription of the per-dialect alter_column methods and @compiles "
             "visitors, tied to the code by an exhaustive exact correspondence over the argument lattice on seven dialects")
LEVEL_TEXT = ("Machine-checked: for every dialect, request and stated existing attributes, the statements the model emits move "
              "the column to 'existing overridden by requested' whenever the restated attributes are stated (or have the fall-back "
              "value), never invent a value for a stated attribute, raise exactly when the change is inexpressible, and the "
              "existing_* values each dialect needs are characterised exactly with counter-examples; the ignored autoincrement= on "
              "non-MySQL dialects is proved as a refutation. The model equals the real op.alter_column output on the whole lattice.")
LEVEL_NOTE = ("Trusted: Coq kernel+vm_compute, the hand-written model (tied exhaustively on the lattice), the SQL tokenizer and the "
              "abstract statement semantics. Identity/Computed defaults and batch mode are outside; type-bound CHECK constraints are "
              "in the model and the tie but are not one of the six judged attributes.")
EXHAUSTIVE = {"quick": True, "thorough": True}
CASE_TIMEOUT = 10

DIALECTS = ["default", "sqlite", "postgresql", "mysql", "mariadb", "mssql", "oracle"]
COQ_DIALECT = {"default": "Ddefault", "sqlite": "Dsqlite", "postgresql": "Dpostgresql", "mysql": "Dmysql",
               "mariadb": "Dmariadb", "mssql": "Dmssql", "oracle": "Doracle"}

# catalogue: name -> (coq id, is DateTime affinity)
TYPES = {"T0": (10, False), "T1": (11, False), "B0": (12, False), "E1": (13, False), "DT0": (20, True), "DT1": (21, True)}
CK_IDS = {"ckb": 50, "cke": 51}         # names of the type-bound CHECKs of B0 (Boolean) and E1 (non-native Enum)
DEFAULT_IDS = {"7": 7, "9": 9}          # existing default text '7', requested '9'
COMMENT_IDS = {"oc": 30, "nc": 31}      # existing comment, requested comment
NAME_IDS = {"c": 1, "d": 2}
USING_IDS = {"u1": 40}


# ----------------------------------------------------------------------------- generation

def _req(type_, null, default, name, comment, autoinc, using=None):
    return {"type": type_, "null": null, "default": default, "name": name, "comment": comment, "autoinc": autoinc,
            "using": using}


def _ex(type_, null, default, comment, autoinc):
    return {"type": type_, "null": null, "default": default, "comment": comment, "autoinc": autoinc}


TRI3 = [None, True, False]
PRES = [None, True]          # presence only (one polarity)


def lattice(d, req_types, ex_types, schemas, rnull=TRI3, rauto=TRI3, enull=TRI3, eauto=TRI3, usings=(None,), tri="FNS"):
    """schemas: [False], [True], [False, True] (both for every pattern) or "alt" (alternating along the enumeration)"""
    k = 0
    for rt, rn, rd, rname, rc, ra, ru in itertools.product(req_types, rnull, tri, [None, "d"], tri, rauto, usings):
        for et, en, ed, ec, ea in itertools.product(ex_types, enull, tri, [None, "S"], eauto):
            k += 1
            for sch in ([bool(k & 1)] if schemas == "alt" else schemas):
                yield {"d": d, "schema": sch, "req": _req(rt, rn, rd, rname, rc, ra, ru), "ex": _ex(et, en, ed, ec, ea)}


RULE = (
    "exhaustive enumeration of the argument lattice of op.alter_column(t, c, ...) in as_sql mode. "
    "request = type_{absent,T1[,DT1 DateTime-affinity]} x nullable{absent,True,False} x server_default{absent(False),None,'9'} x "
    "new_column_name{absent,'d'} x comment{absent(False),None,'nc'} x autoincrement{absent,True,False}; "
    "existing = existing_type{absent,T0[,DT0]} x existing_nullable{absent,True,False} x existing_server_default{absent(False),None,'7'} "
    "x existing_comment{absent,'oc'} x existing_autoincrement{absent,True[,False]}. "
    "quick: mssql complete (existing_autoincrement absent/True), default/postgresql/oracle complete except existing_nullable "
    "absent/False and existing_autoincrement absent/True, mysql complete incl. DateTime types (existing_autoincrement absent/True), "
    "mariadb and sqlite on the presence lattice (one polarity per boolean), schema alternating along "
    "the enumeration, plus postgresql_using on the postgresql presence lattice, plus on every dialect the schema types B0 = "
    "Boolean(create_constraint=True) / E1 = non-native Enum(create_constraint=True) as type_ and existing_type on a presence "
    "lattice with server_default/comment in {absent, value} (toimpl's DROP/ADD CONSTRAINT). thorough: all seven dialects complete x {schema, no "
    "schema}, mysql/mariadb with DateTime types, plus on every dialect a slice with requested type == existing type / DateTime types "
    "a slice with postgresql_using and the schema-type slice on the full presence lattice. non-trivial = no exception and at least one statement emitted; distinct by encoded input")


def generate(tier, seed):
    if tier == "quick":
        for d in ("default", "postgresql", "oracle"):
            yield from lattice(d, [None, "T1"], [None, "T0"], "alt", enull=[None, False], eauto=PRES)
        yield from lattice("mssql", [None, "T1"], [None, "T0"], "alt", eauto=PRES)
        yield from lattice("sqlite", [None, "T1"], [None, "T0"], "alt", rnull=PRES, rauto=PRES, enull=[None, False], eauto=PRES)
        yield from lattice("mysql", [None, "T1", "DT1"], [None, "T0", "DT0"], "alt", eauto=PRES)
        yield from lattice("mariadb", [None, "T1", "DT1"], [None, "T0", "DT0"], "alt", rnull=PRES, rauto=PRES,
                           enull=[None, False], eauto=PRES)
        yield from lattice("postgresql", [None, "T1"], [None, "T0"], "alt", rnull=PRES, rauto=PRES, enull=PRES, eauto=PRES,
                           usings=["u1"])
        for d in DIALECTS:      # schema types with a type-bound CHECK (toimpl.alter_column's constraint drop/add)
            yield from lattice(d, [None, "E1", "B0"], [None, "B0", "E1"], "alt", rnull=PRES, rauto=[None], enull=[None, False],
                               eauto=[None], tri="FS")
    else:
        for d in DIALECTS:
            if d in ("mysql", "mariadb"):
                yield from lattice(d, [None, "T1", "DT1"], [None, "T0", "DT0"], [False, True])
            else:
                yield from lattice(d, [None, "T1"], [None, "T0"], [False, True])
            yield from lattice(d, ["T0", "DT1"], [None, "T0", "DT0"], "alt", rnull=PRES, rauto=PRES, enull=[None, False],
                               eauto=PRES)
            yield from lattice(d, [None, "T1"], [None, "T0"], "alt", rnull=PRES, rauto=PRES, enull=[None, False], eauto=PRES,
                               usings=["u1"])
            yield from lattice(d, [None, "E1", "B0", "T1"], [None, "B0", "E1", "T0"], "alt", rnull=PRES, rauto=PRES,
                               enull=[None, False], eauto=PRES)


def search(tier, seed):
    """seeded random points of the widest lattice (all catalogue types incl. schema types, both polarities, using, schema)"""
    rnd = random.Random(seed * 7919 + 13)
    c = rnd.choice
    for _ in range(40000):
        yield {"d": c(DIALECTS), "schema": c([False, True]),
               "req": _req(c([None, "T1", "DT1", "T0", "B0", "E1"]), c(TRI3), c("FNS"), c([None, "d"]), c("FNS"), c(TRI3),
                           c([None, None, "u1"])),
               "ex": _ex(c([None, "T0", "DT0", "B0", "E1"]), c(TRI3), c("FNS"), c([None, "S"]), c(TRI3))}


# ----------------------------------------------------------------------------- encoders

def _ty(name, d):
    i, dt = TYPES[name]
    ck = _context(d)[3][name]
    return "(mkTy %d %s %s)" % (i, "true" if dt else "false", "None" if ck is None else "(Some %d)" % ck)


def _opt(x, f):
    return "None" if x is None else "(Some %s)" % f(x)


def _b(x):
    return "true" if x else "false"


def _tri(code, val):
    return {"F": "TFalse", "N": "TNone", "S": "(TSome %d)" % val}[code]


def encode_in(h):
    r, e = h["req"], h["ex"]
    req = "(mkReq %s %s %s %s %s %s %s)" % (
        _opt(r["type"], lambda t: _ty(t, h["d"])), _opt(r["null"], _b), _tri(r["default"], 9), _opt(r["name"], lambda n: str(NAME_IDS[n])),
        _tri(r["comment"], 31), _opt(r["autoinc"], _b), _opt(r.get("using"), lambda u: str(USING_IDS[u])))
    ex = "(mkEx 1 %s %s %s %s %s)" % (
        _opt(e["type"], lambda t: _ty(t, h["d"])), _opt(e["null"], _b), _tri(e["default"], 7),
        "None" if e["comment"] is None else "(Some 30)", _opt(e["autoinc"], _b))
    return "(mkIn %s %s %s %s)" % (COQ_DIALECT[h["d"]], _b(h["schema"]), req, ex)


def encode_stmt(s, d):
    _ty = lambda t: globals()["_ty"](t, d)
    k = s[0]
    if k == "SetNull":
        return "SetNull %s" % _b(s[1])
    if k in ("SetDefault", "MySQLAlterDefault", "SetComment"):
        return "%s %s" % (k, _opt(s[1], str))
    if k == "SetType":
        return "SetType %s %s" % (_ty(s[1]), _opt(s[2], str))
    if k in ("Rename", "MSSQLSpRename", "MSSQLAddDefault", "DropConstraint", "AddConstraint"):
        return "%s %d" % (k, s[1])
    if k in ("MySQLChange", "MySQLModify"):
        sp = s[-1]
        spec = "(mkSpec %s %s %s %s %s)" % (_ty(sp["type"]), _b(sp["null"]), _b(sp["autoinc"]),
                                            _opt(sp["default"], str), _opt(sp["comment"], str))
        return "MySQLChange %d %s" % (s[1], spec) if k == "MySQLChange" else "MySQLModify %s" % spec
    if k == "MSSQLAlterNull":
        return "MSSQLAlterNull %s %s" % (_ty(s[1]), _b(s[2]))
    if k == "MSSQLAlterType":
        return "MSSQLAlterType %s" % _ty(s[1])
    if k == "MSSQLDropDefault":
        return "MSSQLDropDefault"
    raise AssertionError("unknown abstract statement %r" % (s,))


def encode_out(stmts, err, d):
    return "([%s], %s)" % ("; ".join(encode_stmt(s, d) for s in stmts), "None" if err is None else "(Some %s)" % err)


# ----------------------------------------------------------------------------- the real code

_CTX = {}


def _sa_types():
    """factories (a fresh type object per call, as a migration script would write them inline)"""
    import sqlalchemy as sa
    return {"T0": sa.Integer, "T1": lambda: sa.String(30), "DT0": sa.DateTime,
            "B0": lambda: sa.Boolean(create_constraint=True, name="ckb"),
            "E1": lambda: sa.Enum("a", "b", name="cke", native_enum=False, create_constraint=True),
            "DT1": [sa.TIMESTAMP, lambda: sa.DateTime(timezone=True)]}


def _counted_constraint(mk, typeobj):
    """oracle for ty_ck: the name of the constraint that toimpl.alter_column's `_count_constraint` accepts for a column
    of this type on this dialect (SQLAlchemy's SchemaType create rule decides); None when there is none"""
    import sqlalchemy as sa
    from alembic.operations import Operations
    ops = Operations(mk(io.StringIO()))
    compiler = ops.impl.dialect.statement_compiler(ops.impl.dialect, None)
    t = ops.schema_obj.table("t", sa.Column("c", typeobj))
    names = [c.name for c in t.constraints
             if not isinstance(c, sa.PrimaryKeyConstraint) and (not c._create_rule or c._create_rule(compiler))]
    assert len(names) <= 1, names
    return CK_IDS[names[0]] if names else None


def _context(dn):
    """(MigrationContext factory, type factories, type token table, ty_ck oracle) per dialect; the token table is built
    with the dialect's own type compiler, and DT1 is the first DateTime-affinity candidate that renders differently from DT0"""
    if dn in _CTX:
        return _CTX[dn]
    from alembic.runtime.migration import MigrationContext
    from sqlalchemy import types as sqltypes
    from sqlalchemy.engine.default import DefaultDialect

    def mk(buf):
        kw = dict(dialect=DefaultDialect()) if dn == "default" else dict(dialect_name=dn)
        return MigrationContext.configure(opts={"as_sql": True, "output_buffer": buf}, **kw)

    tc = mk(io.StringIO()).impl.dialect.type_compiler
    cat = _sa_types()
    objs = {k: v for k, v in cat.items() if k != "DT1"}
    for cand in cat["DT1"]:
        if tc.process(cand()) != tc.process(cat["DT0"]()):
            objs["DT1"] = cand
            break
    for k in objs:
        assert (objs[k]()._type_affinity is sqltypes.DateTime) == TYPES[k][1], k
    tokens = {tc.process(o()): k for k, o in objs.items()}
    assert len(tokens) == len(TYPES), (dn, tokens)
    ck = {k: _counted_constraint(mk, o()) for k, o in objs.items()}
    _CTX[dn] = (mk, objs, tokens, ck)
    return _CTX[dn]


def call_real(h):
    """run the real op.alter_column; returns (sql text, exception class enum or None)"""
    from alembic.operations import Operations
    from alembic.util import CommandError
    from sqlalchemy import exc as sa_exc
    mk, objs, _, _ = _context(h["d"])
    r, e = h["req"], h["ex"]
    kw = {}
    if r["type"] is not None:
        kw["type_"] = objs[r["type"]]()
    if r["null"] is not None:
        kw["nullable"] = r["null"]
    if r["default"] != "F":
        kw["server_default"] = None if r["default"] == "N" else "9"
    if r["name"] is not None:
        kw["new_column_name"] = r["name"]
    if r["comment"] != "F":
        kw["comment"] = None if r["comment"] == "N" else "nc"
    if r["autoinc"] is not None:
        kw["autoincrement"] = r["autoinc"]
    if r.get("using") is not None:
        kw["postgresql_using"] = r["using"]
    if e["type"] is not None:
        kw["existing_type"] = objs[e["type"]]()
    if e["null"] is not None:
        kw["existing_nullable"] = e["null"]
    if e["default"] != "F":
        kw["existing_server_default"] = None if e["default"] == "N" else "7"
    if e["comment"] is not None:
        kw["existing_comment"] = "oc"
    if e["autoinc"] is not None:
        kw["existing_autoincrement"] = e["autoinc"]
    buf = io.StringIO()
    op = Operations(mk(buf))
    err = None
    with warnings.catch_warnings():
        warnings.simplefilter("ignore")
        try:
            op.alter_column("t", "c", schema="s" if h["schema"] else None, **kw)
        except CommandError:
            err = "CommandError"
        except sa_exc.CompileError:
            err = "CompileError"
        except NotImplementedError:
            err = "NotImplementedErr"
        except Exception:
            err = "OtherErr"
    return buf.getvalue(), err


# ----------------------------------------------------------------------------- tokenizer (SQL text -> abstract statements)

def split_statements(dn, text):
    if dn == "mssql":
        sep = ";\n\nGO\n\n"
    elif dn == "oracle":
        sep = "\n\n/\n\n"
    else:
        sep = ";\n\n"
    if text == "":
        return []
    if not text.endswith(sep):
        raise ValueError("output does not end with the statement terminator: %r" % text)
    return text[:-len(sep)].split(sep)


def _lit(s):
    m = re.fullmatch(r"'([^']*)'", s)
    if not m:
        raise ValueError("not a simple literal: %r" % s)
    return m.group(1)


def parse_statement(dn, s, tbl, tokens):
    """one statement of dialect dn -> abstract statement (tuple); raises ValueError when not recognised"""
    ty_alt = "|".join(re.escape(t) for t in sorted(tokens, key=len, reverse=True))
    T = re.escape(tbl)
    mysql = dn in ("mysql", "mariadb")
    m = re.fullmatch(r"ALTER TABLE %s DROP CONSTRAINT (\w+)" % T, s)
    if m and not mysql:
        return ("DropConstraint", CK_IDS[m.group(1)])
    m = re.fullmatch(r"ALTER TABLE %s ADD CONSTRAINT (ckb) CHECK \(c IN \(0, 1\)\)" % T, s) or \
        re.fullmatch(r"ALTER TABLE %s ADD CONSTRAINT (cke) CHECK \(c IN \('a', 'b'\)\)" % T, s)
    if m:
        return ("AddConstraint", CK_IDS[m.group(1)])
    if dn == "oracle":
        m = re.fullmatch(r"ALTER TABLE %s MODIFY c (NULL|NOT NULL)" % T, s)
        if m:
            return ("SetNull", m.group(1) == "NULL")
        m = re.fullmatch(r"ALTER TABLE %s MODIFY c DEFAULT (NULL|'[^']*')" % T, s)
        if m:
            return ("SetDefault", None if m.group(1) == "NULL" else DEFAULT_IDS[_lit(m.group(1))])
        m = re.fullmatch(r"ALTER TABLE %s MODIFY c (%s)" % (T, ty_alt), s)
        if m:
            return ("SetType", tokens[m.group(1)], None)
        m = re.fullmatch(r"COMMENT ON COLUMN %s\.c IS ('[^']*')" % T, s)
        if m:
            c = _lit(m.group(1))
            return ("SetComment", None if c == "" else COMMENT_IDS[c])
        m = re.fullmatch(r"ALTER TABLE %s RENAME COLUMN c TO (\w+)" % T, s)
        if m:
            return ("Rename", NAME_IDS[m.group(1)])
        raise ValueError("unrecognised oracle statement: %r" % s)
    if mysql:
        m = re.fullmatch(r"ALTER TABLE %s (MODIFY c|CHANGE c (\w+)) (%s) (NULL|NOT NULL)( AUTO_INCREMENT)?"
                         r"(?: DEFAULT ('[^']*'))?(?: COMMENT ('[^']*'))?" % (T, ty_alt), s)
        if m:
            spec = {"type": tokens[m.group(3)], "null": m.group(4) == "NULL", "autoinc": bool(m.group(5)),
                    "default": None if m.group(6) is None else DEFAULT_IDS[_lit(m.group(6))],
                    "comment": None if m.group(7) is None else COMMENT_IDS[_lit(m.group(7))]}
            if m.group(2):
                return ("MySQLChange", NAME_IDS[m.group(2)], spec)
            return ("MySQLModify", spec)
        m = re.fullmatch(r"ALTER TABLE %s ALTER COLUMN c (DROP DEFAULT|SET DEFAULT ('[^']*'))" % T, s)
        if m:
            return ("MySQLAlterDefault", None if m.group(2) is None else DEFAULT_IDS[_lit(m.group(2))])
        raise ValueError("unrecognised mysql statement: %r" % s)
    if dn == "mssql":
        m = re.fullmatch(r"ALTER TABLE %s ALTER COLUMN c (%s) (NULL|NOT NULL)" % (T, ty_alt), s)
        if m:
            return ("MSSQLAlterNull", tokens[m.group(1)], m.group(2) == "NULL")
        m = re.fullmatch(r"ALTER TABLE %s ALTER COLUMN c (%s)" % (T, ty_alt), s)
        if m:
            return ("MSSQLAlterType", tokens[m.group(1)])
        m = re.fullmatch(r"ALTER TABLE %s ADD DEFAULT ('[^']*') FOR c" % T, s)
        if m:
            return ("MSSQLAddDefault", DEFAULT_IDS[_lit(m.group(1))])
        m = re.fullmatch(r"EXEC sp_rename '%s\.c', (\w+), 'COLUMN'" % T, s)
        if m:
            return ("MSSQLSpRename", NAME_IDS[m.group(1)])
        drop = ("declare @const_name varchar(256)\n"
                "select @const_name = QUOTENAME([name]) from sys.default_constraints\n"
                "where parent_object_id = object_id('%s')\n"
                "and col_name(parent_object_id, parent_column_id) = 'c'\n"
                "exec('alter table %s drop constraint ' + @const_name)" % (tbl, tbl))
        if s == drop:
            return ("MSSQLDropDefault",)
        raise ValueError("unrecognised mssql statement: %r" % s)
    # default, sqlite, postgresql
    m = re.fullmatch(r"ALTER TABLE %s ALTER COLUMN c (SET|DROP) NOT NULL" % T, s)
    if m:
        return ("SetNull", m.group(1) == "DROP")
    m = re.fullmatch(r"ALTER TABLE %s ALTER COLUMN c (DROP DEFAULT|SET DEFAULT ('[^']*'))" % T, s)
    if m:
        return ("SetDefault", None if m.group(2) is None else DEFAULT_IDS[_lit(m.group(2))])
    if dn == "postgresql":
        m = re.fullmatch(r"ALTER TABLE %s ALTER COLUMN c TYPE (%s)(?: USING (\w+))? ?" % (T, ty_alt), s)
        if m:
            return ("SetType", tokens[m.group(1)], None if m.group(2) is None else USING_IDS[m.group(2)])
        m = re.fullmatch(r"COMMENT ON COLUMN %s\.c IS (NULL|'[^']*')" % T, s)
        if m:
            return ("SetComment", None if m.group(1) == "NULL" else COMMENT_IDS[_lit(m.group(1))])
        m = re.fullmatch(r"ALTER TABLE %s RENAME c TO (\w+)" % T, s)
        if m:
            return ("Rename", NAME_IDS[m.group(1)])
    else:
        m = re.fullmatch(r"ALTER TABLE %s ALTER COLUMN c TYPE (%s)" % (T, ty_alt), s)
        if m:
            return ("SetType", tokens[m.group(1)], None)
        m = re.fullmatch(r"ALTER TABLE %s RENAME %sc TO (\w+)" % (T, "COLUMN " if dn == "sqlite" else ""), s)
        if m:
            return ("Rename", NAME_IDS[m.group(1)])
    raise ValueError("unrecognised %s statement: %r" % (dn, s))


def tokenize(h, text):
    _, _, tokens, _ = _context(h["d"])
    tbl = "s.t" if h["schema"] else "t"
    return [parse_statement(h["d"], s, tbl, tokens) for s in split_statements(h["d"], text)]


def run_case(h):
    text, err = call_real(h)
    stmts = tokenize(h, text)          # a ValueError here is a harness problem and propagates
    out = {"sql": text, "stmts": [list(s) for s in stmts], "err": err}
    shape = "%s-%s" % (h["d"], err or ("ok%d" % len(stmts)))
    return dict(cin=encode_in(h), cout=encode_out(stmts, err, h["d"]), out=out,
                nontrivial=bool(stmts) and err is None, shape=shape)


# Python re-statement of the per-attribute effect check, used ONLY to attribute a decider failure to the known
# finding: the failure is the known one iff everything except the autoincrement attribute is as it should be.
_ASSIGN = {
    "SetNull": lambda s: {"null": s[1]}, "SetDefault": lambda s: {"default": s[1]}, "MySQLAlterDefault": lambda s: {"default": s[1]},
    "SetType": lambda s: {"type": s[1]}, "SetComment": lambda s: {"comment": s[1]}, "Rename": lambda s: {"name": s[1]},
    "MSSQLSpRename": lambda s: {"name": s[1]},
    "MySQLChange": lambda s: dict(s[2], name=s[1]), "MySQLModify": lambda s: dict(s[1]),
    "MSSQLAlterNull": lambda s: {"type": s[1], "null": s[2]}, "MSSQLAlterType": lambda s: {"type": s[1], "null": True},
    "MSSQLDropDefault": lambda s: {"default": None}, "MSSQLAddDefault": lambda s: {"default": s[1]},
    "DropConstraint": lambda s: {}, "AddConstraint": lambda s: {},
}
_RESTATES = {"MySQLChange": {"type", "null", "default", "comment", "autoinc"},
             "MySQLModify": {"type", "null", "default", "comment", "autoinc"},
             "MSSQLAlterNull": {"type", "null"}, "MSSQLAlterType": {"null"}}
_NOTHING = object()


def _only_autoinc_wrong(h, stmts):
    r, e = h["req"], h["ex"]
    tri = lambda code, v: _NOTHING if code == "F" else (None if code == "N" else v)
    opt = lambda x: _NOTHING if x is None else x
    req = {"name": opt(NAME_IDS.get(r["name"])), "type": opt(r["type"]), "null": opt(r["null"]),
           "default": tri(r["default"], 9), "comment": tri(r["comment"], 31)}
    stated = {"name": 1, "type": opt(e["type"]), "null": opt(e["null"]), "default": tri(e["default"], 7),
              "comment": _NOTHING if e["comment"] is None else 30}
    reading = {"null": True, "default": None, "comment": None}
    last, restated = {}, set()
    for s in stmts:
        s = tuple(s)
        last.update(_ASSIGN[s[0]](s))
        restated |= _RESTATES.get(s[0], set())
    for a in ("name", "type", "null", "default", "comment"):
        v = last.get(a, _NOTHING)
        if req[a] is not _NOTHING:
            if v is _NOTHING:
                v = stated[a]
            if v is _NOTHING or v != req[a]:
                return False
        elif v is not _NOTHING:
            if stated[a] is not _NOTHING:
                if v != stated[a]:
                    return False
            elif not (a in restated and a in reading and v == reading[a]):
                return False
    return "autoinc" not in last      # the autoincrement attribute itself is left alone


def classify(h, out):
    """known finding: a requested autoincrement= is silently ignored outside MySQL/MariaDB (nothing emitted for it, no
    exception), and that is the ONLY thing wrong with the output"""
    r, e = h["req"], h["ex"]
    if h["d"] not in ("mysql", "mariadb") and r["autoinc"] is not None and e["autoinc"] != r["autoinc"] \
            and out is not None and out.get("err") is None and _only_autoinc_wrong(h, out["stmts"]):
        return "C13-autoincrement-ignored"
    return None
