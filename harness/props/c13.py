"""C13 — alter_column changes only what it was asked to change, on every dialect.

Real `op.alter_column(...)` in offline (`as_sql`) mode on seven dialects vs Model.AlterCol.plan.
The emitted SQL text is parsed, strictly and per dialect, into the abstract statement alphabet of
coq/Model/AlterCol.v by the tokenizer below (trusted glue: anything it does not recognise is a
harness error, never silently dropped)."""
import io
import itertools
import random
import re
import warnings

PROP = "C13"
COQ = dict(imports=["Model.AlterCol", "Spec.C13"], in_ty="c13_in", out_ty="iout",
           corr="corr_C13", decide="check_C13", model="tagged_C13")
THEOREMS = ["C13_sem_is_assign", "C13_run_addressing", "C13_decider_sound", "C13_decider_complete", "C13_model_holds_partial", "C13_effect",
            "C13_restated", "C13_raises_instead", "C13_raises_iff_unsupported", "C13_toimpl_frame", "C13_autoinc_ignored",
            "C13_autoinc_ignored_refuted", "C13_pg_plain_default_on_identity_refuted", "C13_stated_enough_exact",
            "C13_stated_enough_minimal"]
TRUSTED = [
    "C13 statement tokenizer in harness/props/c13.py (SQL text -> abstract statements; strict per dialect, fails loudly)",
    "abstract meaning `sem` of each statement on a column state (a statement that names a column name the column does not "
    "have at that point fails; MySQL CHANGE/MODIFY replace the whole definition; "
    "MSSQL ALTER COLUMN without NULL/NOT NULL makes the column nullable; Oracle DEFAULT NULL / COMMENT '' clear)",
    "SQLAlchemy type rendering is an opaque token (one token per catalogue type and dialect); string literals (defaults, "
    "comments) are lexed back to their VALUE with the dialect's literal rules as SQLAlchemy declares them ('' always, \\\\ when "
    "dialect._backslash_escapes, %% when the preparer doubles percent signs), cf. C14_strlit_roundtrip; a malformed literal or "
    "a value outside the catalogue becomes an id nothing requests, so the decider rejects it",
]
ASSUME = [
    "server defaults are plain strings, sqlalchemy.Computed or sqlalchemy.Identity objects (one catalogue object per kind and "
    "side); for Identity / Computed the model and the correspondence cover which construct is built, which dialect compiles it "
    "and what is raised, the effect theorems are stated for plain defaults; the PostgreSQL identity SET loop is an opaque token "
    "(full / differing attributes) and SET on a column that is not an identity is not judged; an empty-string comment is "
    "the same as no comment (None) on every backend and is encoded so",
    "batch mode: only the forwarding of BatchOperations.alter_column to the dialect impl when no table recreate is needed "
    "(every dialect except sqlite); the recreate path is C10's",
    "type-bound CHECK constraints (Boolean / non-native Enum with create_constraint=True) are named; which constraint "
    "toimpl's _count_constraint accepts for a type on a dialect is SQLAlchemy's create rule, observed by the harness and given to "
    "the model as ty_ck; DROP/ADD CONSTRAINT are modelled as leaving the six column attributes alone (the constraint itself is not "
    "a modelled attribute: e.g. MySQL/SQLite skipping the DROP is reproduced by the model but not judged)",
    "whether the backend accepts the spelling (SQLite has no ALTER COLUMN; MSSQL rejects ADD DEFAULT when a default is "
    "bound) is not part of the statement; non-batch mode only",
]
DESIGN_REF = "DESIGN.md section 5 C13"
TECHNIQUE = ("Coq proofs by case analysis over the presence lattice with abstract values (types/defaults/comments/names are "
             "arbitrary N) about a two-layer Gallina transcription of the per-dialect alter_column methods and @compiles "
             "visitors, tied to the code by an exhaustive exact correspondence over the argument lattice on seven dialects")
LEVEL_TEXT = ("Machine-checked: for every dialect, request and stated existing attributes, the statements the model emits move "
              "the column to 'existing overridden by requested' whenever the restated attributes are stated (or have the fall-back "
              "value), never invent a value for a stated attribute, raise exactly when the change is inexpressible, and the "
              "existing_* values each dialect needs are characterised exactly with counter-examples; the ignored autoincrement= on "
              "non-MySQL dialects is proved as a refutation. The model equals the real op.alter_column output on the whole lattice.")
LEVEL_NOTE = ("Trusted: Coq kernel+vm_compute, the hand-written model (tied exhaustively on the lattice), the SQL tokenizer and the "
              "abstract statement semantics. Identity/Computed defaults and batch mode are outside; type-bound CHECK constraints are "
              "in the model and the tie but are not one of the six judged attributes.")
EXHAUSTIVE = {"quick": True, "thorough": True}
CASE_TIMEOUT = 10

DIALECTS = ["default", "sqlite", "postgresql", "mysql", "mariadb", "mssql", "oracle"]
COQ_DIALECT = {"default": "Ddefault", "sqlite": "Dsqlite", "postgresql": "Dpostgresql", "mysql": "Dmysql",
               "mariadb": "Dmariadb", "mssql": "Dmssql", "oracle": "Doracle"}

# catalogue: name -> (coq id, is DateTime affinity)
TYPES = {"T0": (10, False), "T1": (11, False), "B0": (12, False), "E1": (13, False), "DT0": (20, True), "DT1": (21, True)}
CK_IDS = {"ckb": 50, "cke": 51}         # names of the type-bound CHECKs of B0 (Boolean) and E1 (non-native Enum)
DEFAULT_IDS = {"7": 7, "9": 9}          # existing default text '7', requested '9'
# default codes: F absent(False) / N None / S plain string / C Computed / I Identity.  Coq ids and kinds:
REQ_DEFAULT = {"S": (9, "KPlain"), "C": (81, "KComputed"), "I": (71, "KIdentity"),
               # plain strings whose VALUE needs care in a SQL literal: quote, backslash, percent, double quote, empty, non-ASCII
               "Q": (101, "KPlain"), "B": (102, "KPlain"), "P": (103, "KPlain"), "D": (104, "KPlain"), "Z": (105, "KPlain"),
               "U": (106, "KPlain")}
EX_DEFAULT = {"S": (7, "KPlain"), "C": (80, "KComputed"), "I": (70, "KIdentity"), "Q": (107, "KPlain")}
DEFAULT_TEXT = {"S": "9", "Q": "it's", "B": "a\\b", "P": "50%", "D": 'say "hi"', "Z": "", "U": "na\u00efve \u00e9t\u00e9"}
EX_DEFAULT_TEXT = {"S": "7", "Q": "o'clock"}
REQ_COMMENT = {"S": 31, "Q": 111, "B": 112, "P": 113, "U": 114}
COMMENT_TEXT = {"S": "nc", "Q": "it's", "B": "a\\b", "P": "50%", "U": "na\u00efve"}
EX_COMMENT = {"S": 30, "Q": 115}
EX_COMMENT_TEXT = {"S": "oc", "Q": "o'clock"}
# decoded VALUE of a literal -> id (what the model's statements carry); a value outside the catalogue or a malformed literal
# gets an id nothing requests or states, so the decider rejects it
DEFAULT_VALUE_IDS = {DEFAULT_TEXT[k]: REQ_DEFAULT[k][0] for k in DEFAULT_TEXT}
DEFAULT_VALUE_IDS.update({EX_DEFAULT_TEXT[k]: EX_DEFAULT[k][0] for k in EX_DEFAULT_TEXT})
COMMENT_VALUE_IDS = {COMMENT_TEXT[k]: REQ_COMMENT[k] for k in COMMENT_TEXT}
COMMENT_VALUE_IDS.update({EX_COMMENT_TEXT[k]: EX_COMMENT[k] for k in EX_COMMENT_TEXT})
FOREIGN_VALUE, MALFORMED_LITERAL = 996, 997
COMMENT_IDS = {"oc": 30, "nc": 31}      # existing comment, requested comment
NAME_IDS = {"c": 1, "d": 2}
SCHEMA_IDS = {"s": 60}                  # Spec.C13: tS = (Some 60, 61), tN = (None, 61)
TABLE_IDS = {"t": 61}
USING_IDS = {"u1": 40}


# ----------------------------------------------------------------------------- generation

def _req(type_, null, default, name, comment, autoinc, using=None):
    return {"type": type_, "null": null, "default": default, "name": name, "comment": comment, "autoinc": autoinc,
            "using": using}


def _ex(type_, null, default, comment, autoinc):
    return {"type": type_, "null": null, "default": default, "comment": comment, "autoinc": autoinc}


TRI3 = [None, True, False]
PRES = [None, True]          # presence only (one polarity)


def lattice(d, req_types, ex_types, schemas, rnull=TRI3, rauto=TRI3, enull=TRI3, eauto=TRI3, usings=(None,), tri="FNS",
            rdef=None, edef=None, rcom=None, ecom=(None, "S"), batch=False, keep=None):
    """schemas: [False], [True], [False, True] (both for every pattern) or "alt" (alternating along the enumeration)"""
    k = 0
    for rt, rn, rd, rname, rc, ra, ru in itertools.product(req_types, rnull, rdef or tri, [None, "d"], rcom or tri, rauto, usings):
        for et, en, ed, ec, ea in itertools.product(ex_types, enull, edef or tri, ecom, eauto):
            if keep is not None and not keep(rd, ed):
                continue
            k += 1
            for sch in ([bool(k & 1)] if schemas == "alt" else schemas):
                h = {"d": d, "schema": sch, "req": _req(rt, rn, rd, rname, rc, ra, ru), "ex": _ex(et, en, ed, ec, ea)}
                if batch:
                    h["batch"] = True
                yield h


def smoke():
    """a fixed slice of 203 cases that runs right after the corpus: per dialect the full request, rename + comment, rename +
    type-bound CHECK, each single attribute, the nothing-stated and everything-stated existing, one Identity / Computed case"""
    reqs = [_req("T1", False, "S", "d", "S", True), _req(None, None, "F", "d", "S", None), _req("E1", None, "F", "d", "F", None),
            _req("T1", None, "F", None, "F", None), _req(None, True, "F", None, "F", None), _req(None, None, "S", None, "F", None),
            _req(None, None, "N", None, "F", None), _req(None, None, "F", None, "N", None), _req(None, None, "F", None, "F", True),
            _req("T1", None, "F", None, "F", None, "u1"), _req(None, False, "F", "d", "F", None), _req("T1", True, "N", None, "E", None),
            _req(None, None, "I", None, "F", None), _req(None, None, "Q", None, "F", None), _req(None, True, "B", "d", "Q", None),
            _req(None, None, "P", None, "P", None)]
    exs = [_ex(None, None, "F", None, None), _ex("T0", True, "S", "S", False)]
    for d in DIALECTS:
        for r in reqs:
            for k, e in enumerate(exs):
                yield {"d": d, "schema": bool(k), "req": dict(r), "ex": dict(e)}
        yield {"d": d, "schema": True, "req": _req(None, None, "S", None, "F", None), "ex": _ex("T0", None, "I", None, None)}
        yield {"d": d, "schema": False, "req": _req(None, True, "F", None, "F", None), "ex": _ex("T0", None, "C", None, None)}
        if d != "sqlite":
            yield {"d": d, "schema": True, "batch": True, "req": _req("T1", False, "S", "d", "F", None), "ex": _ex("T0", True, "S", None, None)}


RULE = (
    "exhaustive enumeration of the argument lattice of op.alter_column(t, c, ...) in as_sql mode. "
    "request = type_{absent,T1[,DT1 DateTime-affinity]} x nullable{absent,True,False} x server_default{absent(False),None,'9'} x "
    "new_column_name{absent,'d'} x comment{absent(False),None,'nc'} x autoincrement{absent,True,False}; "
    "existing = existing_type{absent,T0[,DT0]} x existing_nullable{absent,True,False} x existing_server_default{absent(False),None,'7'} "
    "x existing_comment{absent,'oc'} x existing_autoincrement{absent,True[,False]}. "
    "quick: mssql complete (existing_autoincrement absent/True), default/postgresql/oracle complete except existing_nullable "
    "absent/False and existing_autoincrement absent/True, mysql complete incl. DateTime types (existing_autoincrement absent/True), "
    "mariadb and sqlite on the presence lattice (one polarity per boolean), schema alternating along "
    "the enumeration, plus postgresql_using on the postgresql presence lattice, plus on every dialect the schema types B0 = "
    "Boolean(create_constraint=True) / E1 = non-native Enum(create_constraint=True) as type_ and existing_type on a presence "
    "lattice with server_default/comment in {absent, value} (toimpl's DROP/ADD CONSTRAINT). Both tiers start with the corpus, a "
    "fixed 203-case smoke slice, then on every dialect: server_default / existing_server_default in {absent, None, plain, "
    "Computed, Identity} with at least one Computed/Identity x a presence lattice; comment='' / existing_comment=''; "
    "string defaults and comments whose VALUE needs care in a literal (it's, a\\b, 50%, say \"hi\", empty, non-ASCII; the "
    "tokenizer lexes the literal with the dialect's rules and the statement carries the decoded value); "
    "batch_alter_table(...).alter_column on every dialect but sqlite (no recreate). thorough: all seven dialects complete x {schema, no "
    "schema}, mysql/mariadb with DateTime types, plus on every dialect a slice with requested type == existing type / DateTime types "
    "a slice with postgresql_using and the schema-type slice on the full presence lattice. non-trivial = no exception and at least one statement emitted; distinct by encoded input")


def _special_slices(tier):
    kinds = lambda rd, ed: rd in "CI" or ed in "CI"
    full = tier != "quick"
    for d in DIALECTS:
        # Computed / Identity server defaults on either side
        yield from lattice(d, [None, "T1"], [None, "T0"], "alt", rnull=TRI3 if full else PRES, rauto=[None, True] if full else [None],
                           enull=[None, False], eauto=[None], rdef="FNSCI", edef="FNSCI", rcom="FS", ecom=[None, "S"] if full else [None],
                           keep=kinds)
        # empty-string comments (requested and stated)
        yield from lattice(d, [None, "T1"], [None, "T0"], "alt", rnull=PRES, rauto=[None], enull=[None, False], eauto=[None],
                           rdef="FS", edef="FS", rcom="E" if not full else "FE", ecom=[None, "S", "E"],
                           keep=(lambda rd, ed: True))
        # the VALUE of string defaults / comments: quote, backslash, percent, double quote, empty, non-ASCII
        yield from lattice(d, [None, "T1"], [None, "T0"], "alt", rnull=PRES, rauto=[None], enull=[None], eauto=[None],
                           rdef="QBPDZU", edef="FSQ", rcom="F", ecom=[None, "Q"], keep=(lambda rd, ed: True))
        yield from lattice(d, [None, "T1"], [None, "T0"], "alt", rnull=PRES, rauto=[None], enull=[None], eauto=[None],
                           rdef="FQ", edef="FQ", rcom="QBPU", ecom=[None, "S", "Q"], keep=(lambda rd, ed: True))
        # batch mode without recreate: BatchOperations.alter_column forwarded to the dialect impl
        if d != "sqlite":
            yield from lattice(d, [None, "T1", "E1"] if full else [None, "T1"], [None, "T0", "B0"] if full else [None, "T0"], "alt",
                               rnull=PRES, rauto=PRES, enull=[None, False], eauto=PRES, tri="FNS" if full else "FS", batch=True)


def generate(tier, seed):
    yield from smoke()
    yield from _special_slices(tier)
    if tier == "quick":
        for d in ("default", "postgresql", "oracle"):
            yield from lattice(d, [None, "T1"], [None, "T0"], "alt", enull=[None, False], eauto=PRES)
        yield from lattice("mssql", [None, "T1"], [None, "T0"], "alt", eauto=PRES)
        yield from lattice("sqlite", [None, "T1"], [None, "T0"], "alt", rnull=PRES, rauto=PRES, enull=[None, False], eauto=PRES)
        yield from lattice("mysql", [None, "T1", "DT1"], [None, "T0", "DT0"], "alt", eauto=PRES)
        yield from lattice("mariadb", [None, "T1", "DT1"], [None, "T0", "DT0"], "alt", rnull=PRES, rauto=PRES,
                           enull=[None, False], eauto=PRES)
        yield from lattice("postgresql", [None, "T1"], [None, "T0"], "alt", rnull=PRES, rauto=PRES, enull=PRES, eauto=PRES,
                           usings=["u1"])
        for d in DIALECTS:      # schema types with a type-bound CHECK (toimpl.alter_column's constraint drop/add)
            yield from lattice(d, [None, "E1", "B0"], [None, "B0", "E1"], "alt", rnull=PRES, rauto=[None], enull=[None, False],
                               eauto=[None], tri="FS")
    else:
        for d in DIALECTS:
            if d in ("mysql", "mariadb"):
                yield from lattice(d, [None, "T1", "DT1"], [None, "T0", "DT0"], [False, True])
            else:
                yield from lattice(d, [None, "T1"], [None, "T0"], [False, True])
            yield from lattice(d, ["T0", "DT1"], [None, "T0", "DT0"], "alt", rnull=PRES, rauto=PRES, enull=[None, False],
                               eauto=PRES)
            yield from lattice(d, [None, "T1"], [None, "T0"], "alt", rnull=PRES, rauto=PRES, enull=[None, False], eauto=PRES,
                               usings=["u1"])
            yield from lattice(d, [None, "E1", "B0", "T1"], [None, "B0", "E1", "T0"], "alt", rnull=PRES, rauto=PRES,
                               enull=[None, False], eauto=PRES)


def search(tier, seed):
    """seeded random points of the widest lattice (all catalogue types incl. schema types, both polarities, using, schema)"""
    rnd = random.Random(seed * 7919 + 13)
    c = rnd.choice
    for _ in range(40000):
        yield {"d": c(DIALECTS), "schema": c([False, True]),
               "req": _req(c([None, "T1", "DT1", "T0", "B0", "E1"]), c(TRI3), c("FNS"), c([None, "d"]), c("FNS"), c(TRI3),
                           c([None, None, "u1"])),
               "ex": _ex(c([None, "T0", "DT0", "B0", "E1"]), c(TRI3), c("FNS"), c([None, "S"]), c(TRI3))}


# ----------------------------------------------------------------------------- encoders

def _ty(name, d):
    i, dt = TYPES[name]
    ck = _context(d)[3][name]
    return "(mkTy %d %s %s)" % (i, "true" if dt else "false", "None" if ck is None else "(Some %d)" % ck)


def _opt(x, f):
    return "None" if x is None else "(Some %s)" % f(x)


def _b(x):
    return "true" if x else "false"


def _tri(code, table):
    if code in table:
        return "(TSome %d)" % table[code]
    return {"F": "TFalse", "N": "TNone", "E": "TNone"}[code]      # E: '' encoded as None


def _dflt(code, table):
    if code in table:
        return "(TSome %d)" % table[code][0], table[code][1]
    return {"F": "TFalse", "N": "TNone"}[code], "KPlain"


def encode_in(h):
    r, e = h["req"], h["ex"]
    rd, rk = _dflt(r["default"], REQ_DEFAULT)
    ed, ek = _dflt(e["default"], EX_DEFAULT)
    req = "(mkReq %s %s %s %s %s %s %s %s)" % (
        _opt(r["type"], lambda t: _ty(t, h["d"])), _opt(r["null"], _b), rd, _opt(r["name"], lambda n: str(NAME_IDS[n])),
        _tri(r["comment"], REQ_COMMENT), _opt(r["autoinc"], _b), _opt(r.get("using"), lambda u: str(USING_IDS[u])), rk)
    ex = "(mkEx 1 %s %s %s %s %s %s)" % (
        _opt(e["type"], lambda t: _ty(t, h["d"])), _opt(e["null"], _b), ed,
        "(Some %d)" % EX_COMMENT[e["comment"]] if e["comment"] in EX_COMMENT else "None", _opt(e["autoinc"], _b), ek)
    return "(mkIn %s %s %s %s)" % (COQ_DIALECT[h["d"]], "tS" if h["schema"] else "tN", req, ex)


def encode_stmt(s, d):
    """s = (kind, addressed column id or None, args...)"""
    _ty = lambda t: globals()["_ty"](t, d)
    k, c = s[0], s[1]
    if k == "SetNull":
        return "SetNull %d %s" % (c, _b(s[2]))
    if k in ("SetDefault", "MySQLAlterDefault", "SetComment"):
        return "%s %d %s" % (k, c, _opt(s[2], str))
    if k == "SetType":
        return "SetType %d %s %s" % (c, _ty(s[2]), _opt(s[3], str))
    if k == "AlterIdentity":
        return "AlterIdentity %d %d %s" % (c, s[2], _b(s[3]))
    if k in ("DropIdentity", "AlterIdentityEmpty"):
        return "%s %d" % (k, c)
    if k in ("Rename", "MSSQLSpRename", "MSSQLAddDefault", "AddConstraint", "AddIdentity"):
        return "%s %d %d" % (k, c, s[2])
    if k == "DropConstraint":
        return "DropConstraint %d" % s[2]
    if k in ("MySQLChange", "MySQLModify"):
        sp = s[-1]
        spec = "(mkSpec %s %s %s %s %s)" % (_ty(sp["type"]), _b(sp["null"]), _b(sp["autoinc"]),
                                            _opt(sp["default"], str), _opt(sp["comment"], str))
        return "MySQLChange %d %d %s" % (c, s[2], spec) if k == "MySQLChange" else "MySQLModify %d %s" % (c, spec)
    if k == "MSSQLAlterNull":
        return "MSSQLAlterNull %d %s %s" % (c, _ty(s[2]), _b(s[3]))
    if k == "MSSQLAlterType":
        return "MSSQLAlterType %d %s" % (c, _ty(s[2]))
    if k == "MSSQLDropDefault":
        return "MSSQLDropDefault %d" % c
    raise AssertionError("unknown abstract statement %r" % (s,))


def encode_out(tstmts, err, d):
    return "([%s], %s)" % ("; ".join("(%s, %s)" % (t, encode_stmt(s, d)) for t, s in tstmts),
                           "None" if err is None else "(Some %s)" % err)


# ----------------------------------------------------------------------------- the real code

_CTX = {}


def _sa_types():
    """factories (a fresh type object per call, as a migration script would write them inline)"""
    import sqlalchemy as sa
    return {"T0": sa.Integer, "T1": lambda: sa.String(30), "DT0": sa.DateTime,
            "B0": lambda: sa.Boolean(create_constraint=True, name="ckb"),
            "E1": lambda: sa.Enum("a", "b", name="cke", native_enum=False, create_constraint=True),
            "DT1": [sa.TIMESTAMP, lambda: sa.DateTime(timezone=True)]}


def _counted_constraint(mk, typeobj):
    """oracle for ty_ck: the name of the constraint that toimpl.alter_column's `_count_constraint` accepts for a column
    of this type on this dialect (SQLAlchemy's SchemaType create rule decides); None when there is none"""
    import sqlalchemy as sa
    from alembic.operations import Operations
    ops = Operations(mk(io.StringIO()))
    compiler = ops.impl.dialect.statement_compiler(ops.impl.dialect, None)
    t = ops.schema_obj.table("t", sa.Column("c", typeobj))
    names = [c.name for c in t.constraints
             if not isinstance(c, sa.PrimaryKeyConstraint) and (not c._create_rule or c._create_rule(compiler))]
    assert len(names) <= 1, names
    return CK_IDS[names[0]] if names else None


def _context(dn):
    """(MigrationContext factory, type factories, type token table, ty_ck oracle) per dialect; the token table is built
    with the dialect's own type compiler, and DT1 is the first DateTime-affinity candidate that renders differently from DT0"""
    if dn in _CTX:
        return _CTX[dn]
    from alembic.runtime.migration import MigrationContext
    from sqlalchemy import types as sqltypes
    from sqlalchemy.engine.default import DefaultDialect

    def mk(buf):
        kw = dict(dialect=DefaultDialect()) if dn == "default" else dict(dialect_name=dn)
        return MigrationContext.configure(opts={"as_sql": True, "output_buffer": buf}, **kw)

    tc = mk(io.StringIO()).impl.dialect.type_compiler
    cat = _sa_types()
    objs = {k: v for k, v in cat.items() if k != "DT1"}
    for cand in cat["DT1"]:
        if tc.process(cand()) != tc.process(cat["DT0"]()):
            objs["DT1"] = cand
            break
    for k in objs:
        assert (objs[k]()._type_affinity is sqltypes.DateTime) == TYPES[k][1], k
    tokens = {tc.process(o()): k for k, o in objs.items()}
    assert len(tokens) == len(TYPES), (dn, tokens)
    ck = {k: _counted_constraint(mk, o()) for k, o in objs.items()}
    dia = mk(io.StringIO()).impl.dialect
    # SQLAlchemy's own string-literal conventions for this dialect (render_literal_value): '' for a quote always,
    # \\ for a backslash when the dialect escapes backslashes, %% for a percent sign when the DBAPI paramstyle needs it
    flags = (bool(getattr(dia, "_backslash_escapes", False)), bool(getattr(dia.identifier_preparer, "_double_percents", False)))
    _CTX[dn] = (mk, objs, tokens, ck, flags)
    return _CTX[dn]


def call_real(h):
    """run the real op.alter_column; returns (sql text, exception class enum or None)"""
    from alembic.operations import Operations
    from alembic.util import CommandError
    from sqlalchemy import exc as sa_exc
    import sqlalchemy as sa
    mk, objs = _context(h["d"])[:2]
    r, e = h["req"], h["ex"]
    kw = {}
    if r["type"] is not None:
        kw["type_"] = objs[r["type"]]()
    if r["null"] is not None:
        kw["nullable"] = r["null"]
    if r["default"] != "F":
        kw["server_default"] = DEFAULT_TEXT[r["default"]] if r["default"] in DEFAULT_TEXT else \
            {"N": lambda: None, "C": lambda: sa.Computed("x + 1"),
             "I": lambda: sa.Identity(always=True, start=1, increment=5)}[r["default"]]()
    if r["name"] is not None:
        kw["new_column_name"] = r["name"]
    if r["comment"] != "F":
        kw["comment"] = COMMENT_TEXT[r["comment"]] if r["comment"] in COMMENT_TEXT else {"N": None, "E": ""}[r["comment"]]
    if r["autoinc"] is not None:
        kw["autoincrement"] = r["autoinc"]
    if r.get("using") is not None:
        kw["postgresql_using"] = r["using"]
    if e["type"] is not None:
        kw["existing_type"] = objs[e["type"]]()
    if e["null"] is not None:
        kw["existing_nullable"] = e["null"]
    if e["default"] != "F":
        kw["existing_server_default"] = EX_DEFAULT_TEXT[e["default"]] if e["default"] in EX_DEFAULT_TEXT else \
            {"N": lambda: None, "C": lambda: sa.Computed("x + 2"), "I": lambda: sa.Identity(start=1, increment=1)}[e["default"]]()
    if e["comment"] is not None:
        kw["existing_comment"] = EX_COMMENT_TEXT.get(e["comment"], "")
    if e["autoinc"] is not None:
        kw["existing_autoincrement"] = e["autoinc"]
    buf = io.StringIO()
    op = Operations(mk(buf))
    err = None
    with warnings.catch_warnings():
        warnings.simplefilter("ignore")
        try:
            if h.get("batch"):
                with op.batch_alter_table("t", schema="s" if h["schema"] else None) as bop:
                    bop.alter_column("c", **kw)
            else:
                op.alter_column("t", "c", schema="s" if h["schema"] else None, **kw)
        except CommandError:
            err = "CommandError"
        except sa_exc.CompileError:
            err = "CompileError"
        except NotImplementedError:
            err = "NotImplementedErr"
        except Exception:
            err = "OtherErr"
    return buf.getvalue(), err


# ----------------------------------------------------------------------------- tokenizer (SQL text -> abstract statements)

def split_statements(dn, text):
    if dn == "mssql":
        sep = ";\n\nGO\n\n"
    elif dn == "oracle":
        sep = "\n\n/\n\n"
    else:
        sep = ";\n\n"
    if text == "":
        return []
    if not text.endswith(sep):
        raise ValueError("output does not end with the statement terminator: %r" % text)
    return text[:-len(sep)].split(sep)


def _decode(dn, tok):
    """the VALUE of one SQL string literal of dialect dn (lexed with the dialect's literal rules), or None when tok is not
    exactly one well-formed literal"""
    bs, dp = _context(dn)[4]
    if len(tok) < 2 or tok[0] != "'" or tok[-1] != "'":
        return None
    inner, out, i = tok[1:-1], [], 0
    while i < len(inner):
        ch = inner[i]
        nxt = inner[i + 1] if i + 1 < len(inner) else None
        if ch == "'":
            if nxt != "'":
                return None
            out.append("'"); i += 2
        elif ch == "\\" and bs:
            if nxt != "\\":
                return None
            out.append("\\"); i += 2
        elif ch == "%" and dp:
            if nxt != "%":
                return None
            out.append("%"); i += 2
        else:
            out.append(ch); i += 1
    return "".join(out)


def _dval(dn, tok):
    v = _decode(dn, tok)
    return MALFORMED_LITERAL if v is None else DEFAULT_VALUE_IDS.get(v, FOREIGN_VALUE)


def _cval(dn, tok):
    v = _decode(dn, tok)
    return MALFORMED_LITERAL if v is None else (None if v == "" else COMMENT_VALUE_IDS.get(v, FOREIGN_VALUE))


def _lit(s):
    m = re.fullmatch(r"'([^']*)'", s)
    if not m:
        raise ValueError("not a simple literal: %r" % s)
    return m.group(1)


TBL = r"(?:(?P<sch>\w+)\.)?(?P<tbl>\w+)"
COL = r"(?P<col>\w+)"


def _target(m, sch="sch", tbl="tbl"):
    """(schema, table) named by the statement -> 'tS' / 'tN' (Spec.C13); unknown names are a harness error"""
    sc, tb = m.group(sch), m.group(tbl)
    if tb not in TABLE_IDS or (sc is not None and sc not in SCHEMA_IDS):
        raise ValueError("statement targets an unknown table: %r.%r" % (sc, tb))
    return "tS" if sc is not None else "tN"


def parse_statement(dn, s, tokens):
    """one statement of dialect dn -> (target, abstract statement); the abstract statement is
    (kind, addressed column id or None, args...).  raises ValueError when not recognised"""
    ty_alt = "|".join(re.escape(t) for t in sorted(tokens, key=len, reverse=True))
    mysql = dn in ("mysql", "mariadb")
    col = lambda m: NAME_IDS[m.group("col")]
    AT = "ALTER TABLE " + TBL + " "
    m = re.fullmatch(AT + r"DROP CONSTRAINT (\w+)", s)
    if m and not mysql:
        return _target(m), ("DropConstraint", None, CK_IDS[m.group(3)])
    m = re.fullmatch(AT + r"ADD CONSTRAINT (?P<ck>ckb) CHECK \(" + COL + r" IN \(0, 1\)\)", s) or \
        re.fullmatch(AT + r"ADD CONSTRAINT (?P<ck>cke) CHECK \(" + COL + r" IN \('a', 'b'\)\)", s)
    if m:
        return _target(m), ("AddConstraint", col(m), CK_IDS[m.group("ck")])
    IDENT_FULL = r"GENERATED ALWAYS AS IDENTITY \(INCREMENT BY 5 START WITH 1\)"      # the requested Identity (id 71)
    if dn == "oracle":
        m = re.fullmatch(AT + "MODIFY " + COL + " " + IDENT_FULL, s)
        if m:
            return _target(m), ("AddIdentity", col(m), 71)
        m = re.fullmatch(AT + "MODIFY " + COL + " DROP IDENTITY", s)
        if m:
            return _target(m), ("DropIdentity", col(m))
        m = re.fullmatch(AT + "MODIFY " + COL + r" (NULL|NOT NULL)", s)
        if m:
            return _target(m), ("SetNull", col(m), m.group(4) == "NULL")
        m = re.fullmatch(AT + "MODIFY " + COL + r" DEFAULT (NULL|'.*')", s)
        if m:
            return _target(m), ("SetDefault", col(m), None if m.group(4) == "NULL" else _dval(dn, m.group(4)))
        m = re.fullmatch(AT + "MODIFY " + COL + r" (%s)" % ty_alt, s)
        if m:
            return _target(m), ("SetType", col(m), tokens[m.group(4)], None)
        m = re.fullmatch(r"COMMENT ON COLUMN " + TBL + r"\." + COL + r" IS ('.*')", s)
        if m:
            return _target(m), ("SetComment", col(m), _cval(dn, m.group(4)))
        m = re.fullmatch(AT + "RENAME COLUMN " + COL + r" TO (\w+)", s)
        if m:
            return _target(m), ("Rename", col(m), NAME_IDS[m.group(4)])
        raise ValueError("unrecognised oracle statement: %r" % s)
    if mysql:
        m = re.fullmatch(AT + r"(?P<kw>MODIFY|CHANGE) " + COL + r"(?P<new> \w+)? (?P<ty>%s) (?P<nl>NULL|NOT NULL)(?P<ai> AUTO_INCREMENT)?"
                         r"(?: DEFAULT (?P<df>'.*?'))?(?: COMMENT (?P<cm>'.*'))?" % ty_alt, s)
        if m and (m.group("kw") == "CHANGE") == (m.group("new") is not None):
            spec = {"type": tokens[m.group("ty")], "null": m.group("nl") == "NULL", "autoinc": bool(m.group("ai")),
                    "default": None if m.group("df") is None else _dval(dn, m.group("df")),
                    "comment": None if m.group("cm") is None else _cval(dn, m.group("cm"))}
            if m.group("kw") == "CHANGE":
                return _target(m), ("MySQLChange", col(m), NAME_IDS[m.group("new").strip()], spec)
            return _target(m), ("MySQLModify", col(m), spec)
        m = re.fullmatch(AT + "ALTER COLUMN " + COL + r" (DROP DEFAULT|SET DEFAULT (?P<df>'.*'))", s)
        if m:
            return _target(m), ("MySQLAlterDefault", col(m), None if m.group("df") is None else _dval(dn, m.group("df")))
        raise ValueError("unrecognised mysql statement: %r" % s)
    if dn == "mssql":
        m = re.fullmatch(AT + "ALTER COLUMN " + COL + r" (?P<ty>%s) (?P<nl>NULL|NOT NULL)" % ty_alt, s)
        if m:
            return _target(m), ("MSSQLAlterNull", col(m), tokens[m.group("ty")], m.group("nl") == "NULL")
        m = re.fullmatch(AT + "ALTER COLUMN " + COL + r" (?P<ty>%s)" % ty_alt, s)
        if m:
            return _target(m), ("MSSQLAlterType", col(m), tokens[m.group("ty")])
        m = re.fullmatch(AT + r"ADD DEFAULT (?P<df>'.*') FOR " + COL, s)
        if m:
            return _target(m), ("MSSQLAddDefault", col(m), _dval(dn, m.group("df")))
        m = re.fullmatch(r"EXEC sp_rename '" + TBL + r"\." + COL + r"', (?P<new>\w+), 'COLUMN'", s)
        if m:
            return _target(m), ("MSSQLSpRename", col(m), NAME_IDS[m.group("new")])
        m = re.fullmatch(r"declare @const_name varchar\(256\)\n"
                         r"select @const_name = QUOTENAME\(\[name\]\) from sys\.default_constraints\n"
                         r"where parent_object_id = object_id\('" + TBL + r"'\)\n"
                         r"and col_name\(parent_object_id, parent_column_id\) = '" + COL + r"'\n"
                         r"exec\('alter table (?:(?P<sch2>\w+)\.)?(?P<tbl2>\w+) drop constraint ' \+ @const_name\)", s)
        if m:
            if _target(m) != _target(m, "sch2", "tbl2"):
                raise ValueError("drop-default statement names two different tables: %r" % s)
            return _target(m), ("MSSQLDropDefault", col(m))
        raise ValueError("unrecognised mssql statement: %r" % s)
    # default, sqlite, postgresql
    m = re.fullmatch(AT + "ALTER COLUMN " + COL + r" (?P<k>SET|DROP) NOT NULL", s)
    if m:
        return _target(m), ("SetNull", col(m), m.group("k") == "DROP")
    m = re.fullmatch(AT + "ALTER COLUMN " + COL + r" (DROP DEFAULT|SET DEFAULT (?P<df>'.*'))", s)
    if m:
        return _target(m), ("SetDefault", col(m), None if m.group("df") is None else _dval(dn, m.group("df")))
    if dn == "postgresql":
        m = re.fullmatch(AT + "ALTER COLUMN " + COL + " ADD " + IDENT_FULL, s)
        if m:
            return _target(m), ("AddIdentity", col(m), 71)
        m = re.fullmatch(AT + "ALTER COLUMN " + COL + " DROP IDENTITY", s)
        if m:
            return _target(m), ("DropIdentity", col(m))
        m = re.fullmatch(AT + "ALTER COLUMN " + COL + r" SET GENERATED ALWAYS SET INCREMENT BY 5(?P<full> SET START WITH 1)? ?", s)
        if m:
            return _target(m), ("AlterIdentity", col(m), 71, m.group("full") is not None)
        m = re.fullmatch(AT + "ALTER COLUMN " + COL + " ?", s)
        if m:
            return _target(m), ("AlterIdentityEmpty", col(m))
        m = re.fullmatch(AT + "ALTER COLUMN " + COL + r" TYPE (?P<ty>%s)(?: USING (?P<u>\w+))? ?" % ty_alt, s)
        if m:
            return _target(m), ("SetType", col(m), tokens[m.group("ty")], None if m.group("u") is None else USING_IDS[m.group("u")])
        m = re.fullmatch(r"COMMENT ON COLUMN " + TBL + r"\." + COL + r" IS (?P<cm>NULL|'.*')", s)
        if m:
            return _target(m), ("SetComment", col(m), None if m.group("cm") == "NULL" else _cval(dn, m.group("cm")))
        m = re.fullmatch(AT + "RENAME " + COL + r" TO (?P<new>\w+)", s)
        if m:
            return _target(m), ("Rename", col(m), NAME_IDS[m.group("new")])
    else:
        m = re.fullmatch(AT + "ALTER COLUMN " + COL + r" TYPE (?P<ty>%s)" % ty_alt, s)
        if m:
            return _target(m), ("SetType", col(m), tokens[m.group("ty")], None)
        m = re.fullmatch(AT + "RENAME %s" % ("COLUMN " if dn == "sqlite" else "") + COL + r" TO (?P<new>\w+)", s)
        if m:
            return _target(m), ("Rename", col(m), NAME_IDS[m.group("new")])
    raise ValueError("unrecognised %s statement: %r" % (dn, s))


def tokenize(h, text):
    tokens = _context(h["d"])[2]
    return [parse_statement(h["d"], s, tokens) for s in split_statements(h["d"], text)]


def run_case(h):
    text, err = call_real(h)
    tstmts = tokenize(h, text)          # a ValueError here is a harness problem and propagates
    out = {"sql": text, "stmts": [[t] + list(st) for t, st in tstmts], "err": err}
    shape = "%s-%s" % (h["d"], err or ("ok%d" % len(tstmts)))
    return dict(cin=encode_in(h), cout=encode_out(tstmts, err, h["d"]), out=out,
                nontrivial=bool(tstmts) and err is None, shape=shape)


# Python re-statement of the decider, used ONLY to attribute a decider failure to a known finding: the failure is a known
# one iff the deviations found are exactly of the known kinds.  stmts: [target, kind, column, args...]
_ASSIGN = {
    "SetNull": lambda a: {"null": a[0]}, "SetDefault": lambda a: {"default": a[0]}, "MySQLAlterDefault": lambda a: {"default": a[0]},
    "SetType": lambda a: {"type": a[0]}, "SetComment": lambda a: {"comment": a[0]}, "Rename": lambda a: {"name": a[0]},
    "MSSQLSpRename": lambda a: {"name": a[0]},
    "MySQLChange": lambda a: dict(a[1], name=a[0]), "MySQLModify": lambda a: dict(a[0]),
    "MSSQLAlterNull": lambda a: {"type": a[0], "null": a[1]}, "MSSQLAlterType": lambda a: {"type": a[0], "null": True},
    "MSSQLDropDefault": lambda a: {"default": None}, "MSSQLAddDefault": lambda a: {"default": a[0]},
    "DropConstraint": lambda a: {}, "AddConstraint": lambda a: {},
    "AddIdentity": lambda a: {"default": a[0]}, "AlterIdentity": lambda a: {"default": a[0]},
    "DropIdentity": lambda a: {"default": None}, "AlterIdentityEmpty": lambda a: {},
}
_RESTATES = {"MySQLChange": {"type", "null", "default", "comment", "autoinc"},
             "MySQLModify": {"type", "null", "default", "comment", "autoinc"},
             "MSSQLAlterNull": {"type", "null"}, "MSSQLAlterType": {"null"}}
_NOTHING = object()


def _req_stated(h):
    """requested / stated value per attribute (_NOTHING = not requested / not stated), in the ids of the encoders"""
    r, e = h["req"], h["ex"]
    tri = lambda code, v: _NOTHING if code == "F" else (None if code in "NE" else
                                                        (v[code][0] if isinstance(v, dict) else v))
    opt = lambda x: _NOTHING if x is None else x
    req = {"name": opt(NAME_IDS.get(r["name"])), "type": opt(r["type"]), "null": opt(r["null"]),
           "default": tri(r["default"], REQ_DEFAULT), "comment": tri(r["comment"], {k: (v,) for k, v in REQ_COMMENT.items()}),
           "autoinc": opt(r["autoinc"])}
    stated = {"name": 1, "type": opt(e["type"]), "null": opt(e["null"]), "default": tri(e["default"], EX_DEFAULT),
              "comment": EX_COMMENT.get(e["comment"], _NOTHING), "autoinc": opt(e["autoinc"])}
    return req, stated


def _deviations(h, stmts):
    """set of deviation kinds of a completed call: 'autoinc' (requested autoincrement left alone), 'other'"""
    dev = set()
    req, stated = _req_stated(h)
    reading = {"null": True, "default": None, "comment": None, "autoinc": False}
    last, restated, cur = {}, set(), 1
    want_t = "tS" if h["schema"] else "tN"
    for s in stmts:
        t, kind, c, args = s[0], s[1], s[2], tuple(s[3:])
        if t != want_t:
            dev.add("other")
        if c is not None and c != cur:
            dev.add("other")
        a = _ASSIGN[kind](args)
        cur = a.get("name", cur)
        last.update(a)
        restated |= _RESTATES.get(kind, set())
    for a in ("name", "type", "null", "default", "comment", "autoinc"):
        v = last.get(a, _NOTHING)
        if req[a] is not _NOTHING:
            if v is _NOTHING:
                v = stated[a]
            if v is _NOTHING or v != req[a]:
                dev.add("autoinc" if a == "autoinc" and a not in last else
                        "default-unapplied" if a == "default" and a not in last else "other")
        elif v is not _NOTHING:
            if stated[a] is not _NOTHING:
                if v != stated[a]:
                    dev.add("other")
            elif not (a in restated and a in reading and v == reading[a]):
                dev.add("other")
    return dev


def classify(h, out):
    """known findings, attributed only when they are the ONLY things wrong with the output of a completed call:
    C13-autoincrement-ignored: a requested autoincrement= is silently ignored outside MySQL/MariaDB;
    C13-pg-plain-default-on-identity-ignored: on postgresql a plain server_default requested while
    existing_server_default is an Identity emits an empty ALTER COLUMN and the default is not applied.
    (the former C13-type-check-added-after-rename is repaired in /repo (0b330f6); its witness is corpus/C13/ and a
    regression is an ordinary VIOLATION)"""
    if out is None or out.get("err") is not None:
        return None
    dev = _deviations(h, out["stmts"])
    if not dev or not dev <= {"autoinc", "default-unapplied"}:
        return None
    if "autoinc" in dev and h["d"] in ("mysql", "mariadb"):
        return None
    if "default-unapplied" in dev:
        if h["d"] == "postgresql" and h["req"]["default"] == "S" and h["ex"]["default"] == "I" \
                and any(s[1] == "AlterIdentityEmpty" for s in out["stmts"]):
            return "C13-pg-plain-default-on-identity-ignored"
        return None
    return "C13-autoincrement-ignored"


# ----------------------------------------------------------------------------- canaries
# Corruptions of an observed output that VIOLATE C13_holds by construction, one per clause of the property:
#   target   a statement moved to the other schema                            (every statement targets schema + table)
#   column   a statement made to name the wrong column                        (run = Some _: addressing)
#   reorder  the rename moved in front of a statement that names the old name (order relative to the rename)
#   value    one literal / flag of one statement changed                      (effect = override; no_invention for restated values)
#   drop     the only statement that sets a requested attribute removed       (effect = override)
#   extra    a statement setting a comment nobody requested to a foreign value added   (no other attribute changes)
#   error    success turned into an exception / an exception into success     (raises iff unsupported)
_COLUMN_KINDS = {"SetNull", "SetDefault", "SetType", "SetComment", "MySQLModify", "MySQLAlterDefault", "MSSQLAlterNull",
                 "MSSQLAlterType", "MSSQLDropDefault", "MSSQLAddDefault", "AddIdentity", "DropIdentity", "AlterIdentity"}


def _other_type(name):
    return "T0" if name != "T0" else "T1"


def _change_value(st):
    """st = [target, kind, col, args...] -> the same statement with one value changed, or None"""
    t, kind, c, args = st[0], st[1], st[2], list(st[3:])
    if kind in ("SetNull",):
        args[0] = not args[0]
    elif kind in ("SetDefault", "MySQLAlterDefault", "SetComment"):
        args[0] = 99 if args[0] is None else args[0] + 1
    elif kind in ("MSSQLAddDefault", "Rename", "MSSQLSpRename", "AddIdentity"):
        args[0] = args[0] + 1
    elif kind == "SetType":
        args[0] = _other_type(args[0])
    elif kind == "MSSQLAlterNull":
        args[1] = not args[1]
    elif kind == "MSSQLAlterType":
        args[0] = _other_type(args[0])
    elif kind == "MySQLModify":
        args[0] = dict(args[0], null=not args[0]["null"])
    elif kind == "MySQLChange":
        args[1] = dict(args[1], null=not args[1]["null"])
    elif kind == "AlterIdentity":
        args[0] = args[0] + 1
    else:
        return None
    return [t, kind, c] + args


def _canaries(h, rec):
    """(kind, corrupted output) pairs"""
    out = rec.get("out") or {}
    stmts, err = [list(s) for s in out.get("stmts", [])], out.get("err")
    d = h["d"]
    enc = lambda ss, e: encode_out([(s[0], tuple(s[1:])) for s in ss], e, d)
    cans = []
    if err is not None:
        # raised although unsupported = true is required for that: as a success it violates "raises iff unsupported"
        cans.append(("error", enc(stmts, None)))
        if stmts:
            s0 = list(stmts[0])
            s0[0] = "tN" if s0[0] == "tS" else "tS"
            cans.append(("target", enc([s0] + stmts[1:], err)))
        return [c for c in cans if c[1] != rec["cout"]]
    if not stmts or _deviations(h, stmts):
        return []          # nothing emitted, or a known-finding case whose observed output already fails the decider
    req, stated = _req_stated(h)
    # error: a completed, supported call reported as raising
    cans.append(("error", enc(stmts, "CompileError")))
    # target
    s0 = list(stmts[-1])
    s0[0] = "tN" if s0[0] == "tS" else "tS"
    cans.append(("target", enc(stmts[:-1] + [s0], None)))
    # column: the first statement that names a column names another one
    for k, st in enumerate(stmts):
        if st[2] is not None:
            bad = list(st)
            bad[2] = 2 if st[2] == 1 else 1
            cans.append(("column", enc(stmts[:k] + [bad] + stmts[k + 1:], None)))
            break
    # reorder: rename first, a statement naming the old name after it
    ren = [k for k, st in enumerate(stmts) if st[1] in ("Rename", "MSSQLSpRename") and st[3] != st[2]]
    if ren and any(st[1] in _COLUMN_KINDS for st in stmts[:ren[0]]):
        k = ren[0]
        cans.append(("reorder", enc([stmts[k]] + stmts[:k] + stmts[k + 1:], None)))
    # value: one literal of the first statement that has one
    for k, st in enumerate(stmts):
        bad = _change_value(st)
        if bad is not None:
            cans.append(("value", enc(stmts[:k] + [bad] + stmts[k + 1:], None)))
            break
    # drop: the only statement that sets a requested attribute whose stated value is not already the requested one
    assigns = [_ASSIGN[st[1]](tuple(st[3:])) for st in stmts]
    done = False
    for a in ("type", "null", "default", "comment", "name"):
        if done or req[a] is _NOTHING or (stated[a] is not _NOTHING and stated[a] == req[a]):
            continue
        setters = [k for k, asg in enumerate(assigns) if a in asg]
        if len(setters) == 1 and len(assigns[setters[0]]) == 1:
            k = setters[0]
            cans.append(("drop", enc(stmts[:k] + stmts[k + 1:], None)))
            done = True
    # extra: a comment nobody asked for, set last (so that nothing restates over it), on the column's current name
    if req["comment"] is _NOTHING:
        cur = 1
        for asg in assigns:
            cur = asg.get("name", cur)
        cans.append(("extra", enc(stmts + [[stmts[0][0], "SetComment", cur, 77]], None)))
    return [c for c in cans if c[1] != rec["cout"]]


def canary(h, rec):
    return [term for _, term in _canaries(h, rec)]
