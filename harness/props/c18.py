"""C18 — offline (--sql) transaction framing: real command.upgrade/downgrade/stamp(sql=True) vs Model.Offline.offline_chunks.

At import the fail-closed translator (harness/translator/dialect_tables.py) regenerates coq/Gen/DialectTables.v from the
ddl/*.py of the tree under test (written only when its content changed), so the C18 theorems, which are stated over that
table, are re-checked against what the code says now."""
import io
import itertools
import os
import random
import re
import shutil
import tempfile

from harness import coqfmt as cf
from harness import engine
from harness.translator import dialect_tables as dt

PROP = "C18"
COQ = dict(imports=["Gen.DialectTables", "Spec.C18"], in_ty="in_C18", out_ty="out_C18",
           corr="corr_C18", decide="check_C18", inclass="inclass_C18",
           model="(fun i : in_C18 => let '(d, c, r) := i in offline_chunks d c r)")
THEOREMS = ["C18_decider_sound", "C18_main", "C18_grammar", "C18_per_migration", "C18_single_block", "C18_autocommit",
            "C18_no_markers", "C18_content", "C18_tables_wf", "C18_table", "C18_ignores_connection_state", "C18_override_routes", "C18_cut_short", "C18_well_bracketed",
            "C18_replay_well_framed", "C18_replay_cut", "C18_replay_equals_online", "C18_multi_db",
            "C18_multi_db_independent"]
CASE_TIMEOUT = 30

_TR_ERROR = None
_TABLE = None
try:
    _TABLE, _TR_CHANGED = dt.regenerate(engine.REPO, engine.COQDIR)
except dt.TranslatorError as e:          # broken tie: every case then fails loudly in run_case
    _TR_ERROR = "translator: %s" % e
    _TR_CHANGED = False

DIALECTS = ["sqlite", "postgresql", "mysql", "mariadb", "mssql", "oracle"]

TRUSTED = [
    "harness/translator/dialect_tables.py (ast -> coq/Gen/DialectTables.v, fail-closed on unknown shapes); its output is "
    "cross-checked because marker spellings and separators are compared verbatim with real offline scripts",
    "classification of non-marker output chunks by the harness (regexes for '-- Running', the STMT/AUTO payloads it wrote "
    "itself, alembic_version INSERT/UPDATE/DELETE/CREATE/DROP); anything unrecognised is passed to Coq as raw text",
    "step sequence, number of version statements per step and 'heads empty after the step' are observed from the real run "
    "(on_version_apply callback / position) and given to the model as input: plans and bookkeeping are C01/C02/C03, not C18",
]
ASSUME = [
    "env.py is the stock wrapper `with context.begin_transaction(): context.run_migrations()` with literal_binds=True, the "
    "context configured from dialect_name or from a live sqlite Connection (fresh or already in a transaction)",
    "mssql_batch_separator / oracle_batch_separator are left at the class default or set to '' or a custom string",
    "user statements never spell a transaction marker or a batch separator themselves; autocommit blocks are not NESTED "
    "(nesting is outside Alembic's design: online it fails an assertion, offline it emits COMMIT COMMIT ... BEGIN BEGIN)",
]
RULE = ("quick (exhaustive): {sqlite,postgresql,mysql,mariadb,mssql,oracle} x transactional_ddl {unset,True,False} x "
        "transaction_per_migration x {upgrade,downgrade,stamp} --sql x history {one,linear3,branched,merged,two roots} x "
        "autocommit placement {none,first,middle,last revision} + the same lattice on sqlite with the offline context configured "
        "from a LIVE Connection x {fresh, already in a transaction (autobegun)} + the transactional_ddl override routed through the "
        "EnvironmentContext keyword (alone, or contradicted by the configure() argument) on all dialects + mssql/oracle with the "
        "batch separator option set to '' or a custom string + offline runs CUT SHORT by an exception raised at every position of every "
        "migration of the linear history (between statements, inside the autocommit section, in the on_version_apply callback) on "
        "all dialects x override x transaction_per_migration x {upgrade, downgrade} + on_version_apply hooks that emit 1 or 2 "
        "statements through ctx.execute() (also in the cut-short runs) + two / three databases of different dialect classes configured "
        "one after the other through ONE EnvironmentContext, each with its own output buffer, with and without explicit overrides on "
        "each call (one case per script) + --sql start:end ranges with start != base (no "
        "CREATE TABLE) and end != head/base (no DROP TABLE) for upgrade, downgrade and stamp on all dialects + linear3 with 7 body layouts (autocommit first/last/only/empty/"
        "twice/multi-statement) ; thorough adds seeded random histories (2-7 revisions, merges, several roots), random bodies "
        "and partial ranges. non-trivial = effective transactional DDL and at least one step; distinct by encoded input")
EXHAUSTIVE = {"quick": True, "thorough": True}
DESIGN_REF = "DESIGN.md section 5 C18, section 4.4"
TECHNIQUE = ("Coq proof by induction on the step list that the modelled offline run satisfies the framing grammar for every "
             "well-formed dialect table entry, table well-formedness closed by vm_compute over the table regenerated from "
             "alembic/ddl/*.py on every run, exact chunk-by-chunk correspondence with real --sql runs, exhaustive over the "
             "configuration lattice")
LEVEL_TEXT = ("Machine-checked: for every dialect entry of the regenerated table, every transactional_ddl/transaction_per_migration "
              "setting and every step list (any length, any autocommit sections) the model of env.py + begin_transaction + "
              "run_migrations + autocommit_block emits a script whose marker sequence is (BEGIN x* COMMIT | y)*, with per-migration "
              "blocks / one enclosing block / autocommit sections exactly as the property says, and no marker without transactional "
              "DDL. The model's output is compared chunk by chunk with the real output buffer on the whole configuration lattice.")
LEVEL_NOTE = ("Trusted: Coq kernel+vm_compute, the model (tied by exhaustive correspondence on the lattice), the translator, the chunk "
              "classifier. Not modelled: nested autocommit blocks.")

SHAPES = {
    "one": [("a1", [])],
    "lin": [("a1", []), ("b2", ["a1"]), ("c3", ["b2"])],
    "br": [("a1", []), ("b2", ["a1"]), ("c3", ["a1"])],
    "mg": [("a1", []), ("b2", ["a1"]), ("c3", ["a1"]), ("d4", ["b2", "c3"])],
    "roots": [("a1", []), ("x1", []), ("b2", ["a1"])],
}
PLAIN = ["s"]
AUTO = ["s", ["a", 1], "s"]
LAYOUTS = {"first": [["a", 1], "s"], "last": ["s", ["a", 1]], "only": [["a", 2]], "empty": ["s", ["a", 0], "s"],
           "twice": [["a", 1], "s", ["a", 1]], "multi": ["s", "s", ["a", 3], "s"], "nobody": []}


def _history(shape, auto, layout=None):
    revs = SHAPES[shape]
    n = len(revs)
    pick = {"none": -1, "first": 0, "mid": n // 2 if n > 1 else -1, "last": n - 1}[auto]
    body = layout if layout is not None else AUTO
    return [{"id": i, "down": dn, "up": body if k == pick else PLAIN, "dn": body if k == pick else PLAIN}
            for k, (i, dn) in enumerate(revs)]


def _case(dialect, tddl, tpm, cmd, revs, spec, tag, conn=None, envkw="unset", sep=None):
    # conn: None = configured from dialect_name; "fresh"/"in_txn" = configured from a live sqlite Connection
    # envkw: transactional_ddl given as EnvironmentContext(..., transactional_ddl=envkw) keyword ("unset": the command is used)
    # sep: value of the mssql_batch_separator / oracle_batch_separator option (None: not given)
    return {"dialect": dialect, "tddl": tddl, "tpm": tpm, "cmd": cmd, "spec": spec, "revs": revs, "tag": tag, "conn": conn,
            "envkw": envkw, "sep": sep}


def _envkw_lattice():
    for shape, auto in (("lin", "none"), ("mg", "mid")):
        revs = _history(shape, auto)
        last = revs[-1]["id"]
        for dn, envkw, both, tpm, cmd in itertools.product(DIALECTS, [True, False], [False, True], [False, True],
                                                           ["upgrade", "downgrade"]):
            spec = {"upgrade": "heads", "downgrade": "%s:base" % last}[cmd]
            yield _case(dn, (not envkw) if both else None, tpm, cmd, revs, spec, "%s/%s" % (shape, auto), envkw=envkw)


def _fail_lattice():
    revs = _history("lin", "mid")
    n = 0
    last = revs[-1]["id"]
    for cmd in ("upgrade", "downgrade"):
        direction = "up" if cmd == "upgrade" else "dn"
        spec = "heads" if cmd == "upgrade" else "%s:base" % last
        fails = []
        for r in revs:
            fails += [[r["id"], direction, p] for p in range(len(_slots(r[direction])))] + [[r["id"], direction, "cb"]]
        for fail in fails:
            for dn, tddl, tpm in itertools.product(DIALECTS, [None, True, False], [False, True]):
                c = _case(dn, tddl, tpm, cmd, revs, spec, "lin/mid")
                c["fail"] = fail
                n += 1
                c["hooks"] = n % 2
                yield c


def _range_lattice():
    """--sql start:end with start != base: no CREATE TABLE; end != head / base: no DROP TABLE"""
    for shape, auto in (("lin", "mid"), ("mg", "last")):
        revs = _history(shape, auto)
        first, second, last = revs[0]["id"], revs[1]["id"], revs[-1]["id"]
        specs = [("upgrade", "%s:heads" % first), ("upgrade", "%s:%s" % (first, last)), ("upgrade", "%s:%s" % (second, last)),
                 ("downgrade", "%s:%s" % (last, first)), ("downgrade", "%s:%s" % (last, second)), ("stamp", "%s:%s" % (first, last))]
        for (cmd, spec), dn, tddl, tpm in itertools.product(specs, DIALECTS, [None, True, False], [False, True]):
            yield _case(dn, tddl, tpm, cmd, revs, spec, "%s/%s-range" % (shape, auto))


def _hook_lattice():
    for shape, auto in (("lin", "mid"), ("mg", "last")):
        revs = _history(shape, auto)
        last = revs[-1]["id"]
        for dn, tddl, tpm, cmd, hooks in itertools.product(DIALECTS, [None, True, False], [False, True],
                                                           ["upgrade", "downgrade", "stamp"], [1, 2]):
            spec = {"upgrade": "heads", "downgrade": "%s:base" % last, "stamp": "heads"}[cmd]
            c = _case(dn, tddl, tpm, cmd, revs, spec, "%s/%s" % (shape, auto))
            c["hooks"] = hooks
            yield c


def _multi_lattice():
    """two (three) databases of different dialect classes through one EnvironmentContext; one case per script"""
    revs = _history("lin", "mid")
    last = revs[-1]["id"]
    seqs = [["postgresql", "mysql"], ["mysql", "postgresql"], ["sqlite", "mssql"], ["mssql", "oracle"], ["oracle", "postgresql"],
            ["postgresql", "sqlite", "mssql"], ["mysql", "mssql", "sqlite"]]
    for dns in seqs:
        for ovs in itertools.product(["unset", True, False], repeat=len(dns)):
            if len(dns) == 3 and ovs.count("unset") < 2:
                continue
            for tpm, cmd in itertools.product([False, True], ["upgrade", "downgrade"]):
                spec = "heads" if cmd == "upgrade" else "%s:base" % last
                for k in range(len(dns)):
                    c = _case(dns[k], None, tpm, cmd, revs, spec, "lin/mid")
                    c["multi"] = [[dn, ov, tpm] for dn, ov in zip(dns, ovs)]
                    c["k"] = k
                    yield c


def _sep_lattice():
    for shape, auto in (("lin", "none"), ("lin", "mid"), ("mg", "last")):
        revs = _history(shape, auto)
        last = revs[-1]["id"]
        for dn, sep, tddl, tpm, cmd in itertools.product(["mssql", "oracle"], ["", "XX"], [None, True, False], [False, True],
                                                         ["upgrade", "downgrade", "stamp"]):
            spec = {"upgrade": "heads", "downgrade": "%s:base" % last, "stamp": "heads"}[cmd]
            yield _case(dn, tddl, tpm, cmd, revs, spec, "%s/%s" % (shape, auto), sep=sep)


def _conn_lattice(shape, auto):
    revs = _history(shape, auto)
    last = revs[-1]["id"]
    for conn, tddl, tpm, cmd in itertools.product(["fresh", "in_txn"], [True, None, False], [False, True],
                                                  ["upgrade", "downgrade", "stamp"]):
        spec = {"upgrade": "heads", "downgrade": "%s:base" % last, "stamp": "heads"}[cmd]
        yield _case("sqlite", tddl, tpm, cmd, revs, spec, "%s/%s" % (shape, auto), conn)


def _lattice(shape, auto, layout=None, tag=None):
    revs = _history(shape, auto, layout)
    last = revs[-1]["id"]
    for dn, tddl, tpm, cmd in itertools.product(DIALECTS, [None, True, False], [False, True], ["upgrade", "downgrade", "stamp"]):
        spec = {"upgrade": "heads", "downgrade": "%s:base" % last, "stamp": "heads"}[cmd]
        yield _case(dn, tddl, tpm, cmd, revs, spec, tag or "%s/%s" % (shape, auto))


def _rand_case(rnd):
    n = rnd.randint(2, 7)
    ids = ["r%d" % i for i in range(n)]
    revs = []
    for k, i in enumerate(ids):
        if k == 0 or rnd.random() < 0.15:
            down = []
        elif k >= 2 and rnd.random() < 0.3:
            down = sorted(rnd.sample(ids[:k], 2))
        else:
            down = [rnd.choice(ids[max(0, k - 3):k])]

        def body():
            out = []
            for _ in range(rnd.randint(0, 4)):
                out.append(["a", rnd.randint(0, 3)] if rnd.random() < 0.35 else "s")
            return out
        revs.append({"id": i, "down": down, "up": body(), "dn": body()})
    cmd = rnd.choice(["upgrade", "upgrade", "downgrade", "downgrade", "stamp"])
    anc = {}
    for r in revs:
        a = set()
        for d in r["down"]:
            a |= {d} | anc[d]
        anc[r["id"]] = a
    tgt = rnd.choice(ids)
    if cmd == "upgrade":
        spec = rnd.choice(["heads", tgt, "%s:heads" % tgt, "%s:%s" % (rnd.choice(sorted(anc[tgt]) or ["base"]), tgt)])
    elif cmd == "downgrade":
        spec = "%s:%s" % (tgt, rnd.choice(sorted(anc[tgt]) + ["base", "base"]))
    else:
        spec = rnd.choice(["heads", tgt, "%s:%s" % (rnd.choice(sorted(anc[tgt]) or ["base"]), tgt)])
    conn = rnd.choice(["fresh", "in_txn"]) if rnd.random() < 0.25 else None
    dn = "sqlite" if conn else rnd.choice(DIALECTS)
    sep = rnd.choice(["", "XX"]) if dn in ("mssql", "oracle") and rnd.random() < 0.4 else None
    c = _case(dn, rnd.choice([None, True, False]), rnd.random() < 0.5, cmd, revs, spec, "random", conn, sep=sep)
    if cmd != "stamp" and rnd.random() < 0.3:
        r = rnd.choice(revs)
        direction = "up" if cmd == "upgrade" else "dn"
        c["fail"] = [r["id"], direction, rnd.choice(list(range(len(_slots(r[direction])))) + ["cb"])]
    return c


def generate(tier, seed):
    for shape, auto in itertools.product(["one", "lin", "br", "mg", "roots"], ["none", "first", "mid", "last"]):
        yield from _lattice(shape, auto)
    for name, layout in LAYOUTS.items():
        yield from _lattice("lin", "mid", layout, tag="lin/layout-" + name)
    for shape, auto in itertools.product(["one", "lin", "br", "mg", "roots"], ["none", "first", "mid", "last"]):
        yield from _conn_lattice(shape, auto)
    yield from _envkw_lattice()
    yield from _sep_lattice()
    yield from _fail_lattice()
    yield from _range_lattice()
    yield from _hook_lattice()
    yield from _multi_lattice()
    rnd = random.Random(seed * 7919 + 18)
    for _ in range(600 if tier == "quick" else 20000):
        yield _rand_case(rnd)


def search(tier, seed):
    rnd = random.Random(seed * 104729 + 18)
    for _ in range(6000):
        yield _rand_case(rnd)


ENV_PY = '''
from alembic import context
a = context.config.attributes
if a.get("dbs"):
    # several databases through ONE EnvironmentContext, each with its own output buffer (the multidb env.py, offline)
    for idx, (dn, kw, buf) in enumerate(a["dbs"]):
        a["cur"] = idx
        context.configure(dialect_name=dn, literal_binds=True, output_buffer=buf, on_version_apply=a["cb"], **kw)
        with context.begin_transaction():
            context.run_migrations()
elif a["conn"] is None:
    context.configure(dialect_name=a["dn"], literal_binds=True, transaction_per_migration=a["tpm"],
                      transactional_ddl=a["tddl"], on_version_apply=a["cb"], **a["extra"])
    with context.begin_transaction():
        context.run_migrations()
else:
    # --sql with a live Connection handed to configure() (used for its dialect only)
    from sqlalchemy import create_engine, text
    engine = create_engine("%s://" % a["dn"])
    try:
        with engine.connect() as connection:
            if a["conn"] == "in_txn":
                connection.execute(text("select 1"))      # SQLAlchemy 2.0 autobegin
            assert connection.in_transaction() == (a["conn"] == "in_txn")
            context.configure(connection=connection, literal_binds=True, transaction_per_migration=a["tpm"],
                              transactional_ddl=a["tddl"], on_version_apply=a["cb"], **a["extra"])
            with context.begin_transaction():
                context.run_migrations()
    finally:
        engine.dispose()
'''


class Boom(Exception):
    pass


def _slots(body):
    """failure points in source order: ("out", t) before item t / after the last; ("in", t, q) inside autocommit section t"""
    out = []
    for t, it in enumerate(body):
        out.append(("out", t))
        if it != "s":
            out += [("in", t, q) for q in range(it[1] + 1)]
    out.append(("out", len(body)))
    return out


def _fn_src(name, rid, direction, body):
    lines, p, n = [], 0, 0
    for it in body:
        lines.append("    _f(%r, %d)" % (direction, n))
        n += 1
        if it == "s":
            lines.append('    op.execute("STMT %s %s %d")' % (rid, direction, p))
            p += 1
        else:
            lines.append("    with op.get_context().autocommit_block():")
            for _ in range(it[1]):
                lines.append("        _f(%r, %d)" % (direction, n))
                n += 1
                lines.append('        op.execute("AUTO %s %s %d")' % (rid, direction, p))
                p += 1
            lines.append("        _f(%r, %d)" % (direction, n))
            n += 1
    lines.append("    _f(%r, %d)" % (direction, n))
    return "def %s():\n%s\n" % (name, "\n".join(lines))


def _cut_body(body, slot):
    """what ran before the raise; a raise inside an autocommit section leaves the section with the statements that ran"""
    if slot[0] == "out":
        return body[:slot[1]]
    return body[:slot[1]] + [["a", slot[2]]]


def _items(body):
    out, p = [], 0
    for it in body:
        if it == "s":
            out.append("IStmt %d" % p)
            p += 1
        else:
            out.append("IAuto %s" % cf.nlist(range(p, p + it[1])))
            p += it[1]
    return cf.lst(out)


_PAYLOAD = re.compile(r"^(STMT|AUTO) (\w+) (up|dn) (\d+);?$")
_HOOK = re.compile(r"^HOOK (\d+);?$")
_VERSION = re.compile(r"^(INSERT INTO alembic_version |UPDATE alembic_version SET |DELETE FROM alembic_version WHERE )")
_QUOTED = re.compile(r"'([^']*)'")


def run_case(h):
    if _TR_ERROR:
        raise RuntimeError(_TR_ERROR)
    import logging
    import warnings
    from alembic import command, util
    from alembic.config import Config
    logging.disable(logging.CRITICAL)
    warnings.simplefilter("ignore")
    names = [r["attrs"]["__dialect__"] for r in _TABLE]
    multi = h.get("multi")
    if multi:
        # the case is the script of database h["k"]; its options are those of its own call plus the explicit overrides before it
        h = dict(h)
        kk = h["k"]
        h["dialect"], h["tpm"] = multi[kk][0], multi[kk][2]
        args = [None if m[1] == "unset" else m[1] for m in multi[:kk + 1]]
        h["tddl_term"] = "(acc_of None %s)" % cf.lst(cf.opt(x, cf.boolean) for x in args)
        acc = None
        for x in args:
            acc = x if x is not None else acc
        h["tddl"] = acc
    didx = names.index(h["dialect"])
    revs = {r["id"]: r for r in h["revs"]}
    d = tempfile.mkdtemp(prefix="avc18")
    steps_by_call = {}
    nhooks = int(h.get("hooks", 0))
    try:
        os.makedirs(os.path.join(d, "versions"))
        open(os.path.join(d, "script.py.mako"), "w").write("")
        open(os.path.join(d, "env.py"), "w").write(ENV_PY)
        for r in h["revs"]:
            down = None if not r["down"] else (r["down"][0] if len(r["down"]) == 1 else tuple(r["down"]))
            open(os.path.join(d, "versions", r["id"] + ".py"), "w").write(
                "from alembic import op, context\nrevision = %r\ndown_revision = %r\n\n"
                "def _f(direction, p):\n"
                "    f = context.config.attributes.get('fail')\n"
                "    if f and f[0] == revision and f[1] == direction and f[2] == p:\n"
                "        raise context.config.attributes['exc']('boom')\n\n%s%s" % (
                    r["id"], down, _fn_src("upgrade", r["id"], "up", r["up"]), _fn_src("downgrade", r["id"], "dn", r["dn"])))
        fail = h.get("fail")       # [revision, "up"/"dn", slot number | "cb"]

        buf = io.StringIO()
        cfg = Config()
        cfg.set_main_option("script_location", d)
        cfg.output_buffer = buf

        def cb(ctx, step, heads, run_args):
            steps_by_call.setdefault(cfg.attributes.get("cur", 0), []).append(
                {"stamp": step.is_stamp, "upgrade": step.is_upgrade, "up": list(step.up_revision_ids),
                 "down": list(step.down_revision_ids), "empty_after": len(heads) == 0, "hooks": nhooks})
            for n in range(nhooks):              # an on_version_apply hook that emits SQL (an audit row per step)
                ctx.execute("HOOK %d" % n)
            if fail and fail[2] == "cb" and not step.is_stamp and step.up_revision_id == fail[0]:
                raise Boom("boom")

        bufs = None
        if multi:
            bufs = [io.StringIO() for _ in multi]
            cfg.attributes["dbs"] = [(m[0], dict(([] if m[1] == "unset" else [("transactional_ddl", m[1])]) +
                                                 [("transaction_per_migration", m[2])]), b) for m, b in zip(multi, bufs)]
        extra = {}
        if h.get("sep") is not None:
            extra[_sep_option(didx)] = h["sep"]
        cfg.attributes.update(dn=h["dialect"], tpm=h["tpm"], tddl=h["tddl"], cb=cb, conn=h.get("conn"), extra=extra,
                              fail=tuple(fail) if fail else None, exc=Boom)
        err = None
        cut = False
        try:
            if h.get("envkw", "unset") == "unset":
                getattr(command, h["cmd"])(cfg, h["spec"], sql=True)
            else:
                # what command.upgrade/downgrade(sql=True) do, with the override given to EnvironmentContext itself
                from alembic.runtime.environment import EnvironmentContext
                from alembic.script import ScriptDirectory
                script = ScriptDirectory.from_config(cfg)
                start, dest = h["spec"].split(":") if ":" in h["spec"] else (None, h["spec"])
                if h["cmd"] == "upgrade":
                    fn = lambda rev, context: script._upgrade_revs(dest, rev)
                elif h["cmd"] == "downgrade":
                    fn = lambda rev, context: script._downgrade_revs(dest, rev)
                else:
                    raise RuntimeError("envkw route: unsupported command")
                with EnvironmentContext(cfg, script, fn=fn, as_sql=True, starting_rev=start, destination_rev=dest,
                                        transactional_ddl=h["envkw"]):
                    script.run_env()
        except util.CommandError:
            err = "CommandError"
        except Boom:
            cut = True
        text = bufs[h["k"]].getvalue() if multi else buf.getvalue()
        steps_seen = steps_by_call.get(h["k"] if multi else 0, [])
    finally:
        shutil.rmtree(d, ignore_errors=True)

    if err:
        # the command refused the range (e.g. target not reachable): nothing was run; model: empty run from a non-empty state
        return dict(cin="(%s, %s, mkRun false [] false)" % (_dterm(h, didx), _ocfg(h)),
                    cout="[]" if not text else cf.lst(["RRaw " + cf.string(text[:40])]),
                    out={"err": err, "text": text[:200]}, nontrivial=False, shape="refused-" + h["cmd"])

    cut_body = None
    if cut and fail[2] != "cb":
        # the failing step never reached its callback: it is the step of the failing revision
        rv = revs[fail[0]]
        cut_body = _cut_body(rv[fail[1]], _slots(rv[fail[1]])[fail[2]])
        steps_seen.append({"stamp": False, "upgrade": fail[1] == "up", "up": [fail[0]], "down": [], "empty_after": False,
                           "hooks": 0})
    parts = text.split("\n\n")
    if parts and parts[-1] == "":
        parts = parts[:-1]
    chunks, evs = [], []
    k = -1                      # index of the current step
    nver = [0] * len(steps_seen)
    for c in parts:
        m = _PAYLOAD.match(c)
        if c.startswith("-- Running "):
            nk = k + 1
            ok = nk < len(steps_seen)
            if ok:
                s = steps_seen[nk]
                word = "stamp_revision" if s["stamp"] else ("upgrade" if s["upgrade"] else "downgrade")
                ok = c.startswith("-- Running %s " % word) and all(x in c for x in s["up"])
            if ok:
                k = nk
                chunks.append("RRunning %d" % k)
                evs.append("R%d" % k)
                continue
        elif m and 0 <= k < len(steps_seen):
            s = steps_seen[k]
            kind, rid, direction, p = m.group(1), m.group(2), m.group(3), int(m.group(4))
            if not s["stamp"] and s["up"] == [rid] and direction == ("up" if s["upgrade"] else "dn"):
                chunks.append("RStmt %d %d %s" % (k, p, cf.boolean(kind == "AUTO")))
                evs.append("A" if kind == "AUTO" else "s")
                continue
        elif _HOOK.match(c) and 0 <= k < len(steps_seen) and int(_HOOK.match(c).group(1)) < steps_seen[k]["hooks"]:
            chunks.append("RStmt %d %d false" % (k, 1000 + int(_HOOK.match(c).group(1))))
            evs.append("h")
            continue
        elif _VERSION.match(c) and 0 <= k < len(steps_seen):
            s = steps_seen[k]
            if set(_QUOTED.findall(c)) <= set(s["up"]) | set(s["down"]):
                chunks.append("RVersion %d %d" % (k, nver[k]))
                nver[k] += 1
                evs.append("V")
                continue
        elif c.startswith("CREATE TABLE alembic_version "):
            chunks.append("RCreate %d" % (k + 1))
            evs.append("T")
            continue
        elif c.startswith("DROP TABLE alembic_version"):
            chunks.append("RDrop")
            evs.append("D")
            continue
        chunks.append("RRaw " + cf.string(c))
        evs.append("<%s>" % c[:30])

    start = h["spec"].split(":")[0] if ":" in h["spec"] else None
    init_empty = start in (None, "base")
    osteps = []
    for j, s in enumerate(steps_seen):
        if s["stamp"]:
            body = []
        else:
            body = revs[s["up"][0]]["up" if s["upgrade"] else "dn"]
        if cut_body is not None and j == len(steps_seen) - 1:
            body = cut_body
        osteps.append("mkOstep %s %d%%nat %s %s" % (_items(body), nver[j], cf.boolean(s["empty_after"]),
                                                    cf.nlist(1000 + n for n in range(s["hooks"]))))
    cin = "(%s, %s, mkRun %s %s %s)" % (_dterm(h, didx), _ocfg(h), cf.boolean(init_empty), cf.lst(osteps), cf.boolean(cut))
    envkw = h.get("envkw", "unset")
    eff = h["tddl"] if h["tddl"] is not None else (envkw if envkw not in ("unset", None) else bool(_resolved_tddl(didx)))
    has_auto = any(it != "s" for s in steps_seen if not s["stamp"]
                   for it in revs[s["up"][0]]["up" if s["upgrade"] else "dn"])
    shape = "%s-tddl%d-tpm%d-%s%s" % (h["cmd"], eff, h["tpm"], "autocommit" if has_auto else "plain",
                                      {None: "", "fresh": "-liveconn", "in_txn": "-liveconn-in-txn"}[h.get("conn")])
    if envkw != "unset":
        shape += "-envkw"
    if h.get("sep") is not None:
        shape += "-sep" + ("empty" if h["sep"] == "" else "custom")
    if nhooks:
        shape += "-hooks%d" % nhooks
    if multi:
        shape += "-multidb%d" % h["k"]
    if cut:
        shape += "-cut-" + ("callback" if fail[2] == "cb" else ("in-autocommit" if _slots(revs[fail[0]][fail[1]])[fail[2]][0] == "in" else "body"))
    return dict(cin=cin, cout=cf.lst(chunks), chunks=chunks, sep=_sep_text(h, didx),
                out={"events": " ".join(evs), "steps": len(steps_seen)},
                nontrivial=bool(eff and steps_seen), shape=shape)


def _sep_option(idx):
    r = _TABLE[idx]
    while r is not None and not r.get("sep_opt"):
        r = _TABLE[r["parent"]] if r["parent"] is not None else None
    if r is None:
        raise RuntimeError("dialect has no batch separator option")
    return r["sep_opt"]


def _dterm(h, didx):
    return "dget %d%%nat" % didx if h.get("sep") is None else "dget_sep %d%%nat %s" % (didx, cf.string(h["sep"]))


def _ocfg(h):
    envkw = h.get("envkw", "unset")
    return "mkOcfg %s %s %s %s" % (h.get("tddl_term") or cf.opt(h["tddl"], cf.boolean), cf.boolean(h["tpm"]),
                                   cf.boolean(h.get("conn") == "in_txn"),
                                   "None" if envkw == "unset" else cf.opt(envkw, cf.boolean))


def _sep_text(h, idx):
    if h.get("sep") is not None:
        return h["sep"]
    r = _TABLE[idx]
    while r is not None and "batch_separator" not in r["attrs"]:
        r = _TABLE[r["parent"]] if r["parent"] is not None else None
    return r["attrs"]["batch_separator"] if r is not None else None


def canary(human, rec):
    """deliberately corrupted scripts the decider must reject: a marker dropped, a marker duplicated, a statement lost,
    a statement duplicated"""
    chunks = rec.get("chunks")
    if not chunks:
        return []
    sep = rec.get("sep")
    is_marker = lambda c: c.startswith("RRaw ") and (sep is None or sep == "" or c != "RRaw " + cf.string(sep))
    marks = [i for i, c in enumerate(chunks) if is_marker(c)]
    cont = [i for i, c in enumerate(chunks) if not c.startswith("RRaw ")]
    out = []
    if marks:
        i, j = marks[0], marks[-1]
        out.append(cf.lst(chunks[:i] + chunks[i + 1:]))                 # the first BEGIN dropped
        out.append(cf.lst(chunks[:j + 1] + [chunks[j]] + chunks[j + 1:]))   # the last COMMIT (or open BEGIN) duplicated
    if cont:
        i = cont[len(cont) // 2]
        out.append(cf.lst(chunks[:i] + chunks[i + 1:]))                 # a statement lost
        out.append(cf.lst(chunks[:i + 1] + [chunks[i]] + chunks[i + 1:]))   # a statement duplicated
    return out


def _resolved_tddl(idx):
    r = _TABLE[idx]
    while "transactional_ddl" not in r["attrs"]:
        r = _TABLE[r["parent"]]
    return r["attrs"]["transactional_ddl"]


def classify(human, out):
    return None


def extra_evidence():
    return {"translator": {"error": _TR_ERROR, "table_rewritten": _TR_CHANGED,
                           "classes": [(r["module"] + "." + r["name"]) for r in (_TABLE or [])]}}
