"""C11 — a failed batch recreate never loses the table's data.

Real `op.batch_alter_table(..., recreate='always')` on a temp-file SQLite database with a
`before_cursor_execute` listener that raises at chosen statements of the recreate sequence (every
position, also the handler's own DROP), plus naturally failing copies (NOT NULL / UNIQUE / CHECK violated
by existing rows, a NOT NULL column added without default, a left-over temporary table, an index name that
is taken, a UNIQUE index over duplicates), under the stock sqlite3 driver (with and without a transaction
already open) and under the documented transactional-DDL recipe, with the transaction ended by Alembic's own
scope, by the caller's rollback, or by the caller's commit.  Observed: exception class, the statements sent,
the database on the same connection before the transaction ends and on a fresh connection afterwards.
Compared exactly with Model.BatchFail.run_batch; the decider check_C11 is applied to the observation.
"""
import asyncio
import json
import os
import random
import re
import shutil
import tempfile

from harness import coqfmt as cf

PROP = "C11"
COQ = dict(imports=["Model.BatchFail", "Spec.C11"], in_ty="input", out_ty="output",
           corr="corr_C11", decide="check_C11", model="model_out")
THEOREMS = ["C11_decider_sound", "C11_no_row_lost", "C11_original_untouched", "C11_tmp_gone_partial",
            "C11_tmp_gone_refuted", "C11_tmp_resurrected", "C11_natural_copy_failure", "C11_others_untouched",
            "C11_txddl_rollback_restores", "C11_holds_partial", "C11_no_row_lost_obs",
            "C11_exception_class_irrelevant", "C11_transactional_ddl_irrelevant", "C11_fault_table", "C11_decider_complete",
            "C11_gather_failure_point"]
TRUSTED = [
    "the database is SQLite's, not Alembic's: its behaviour enters as the statement semantics of Model/BatchFail.v "
    "(apply_stmt: tables as name -> (definition, rows, indexes); NOT NULL / UNIQUE / CHECK(col >= k) enforced by INSERT..SELECT; "
    "exists / does-not-exist failures; statement atomicity) and the three transaction behaviours of `exec` "
    "(TxDDL, Pysqlite 'DML opens a transaction, DDL joins it', AutoCommitDDL); Pysqlite and TxDDL are compared with the real "
    "sqlite3 driver on every run, AutoCommitDDL (MySQL/Oracle style) has no server here and is covered by the theorems only",
    "SQLAlchemy's Connection/transaction objects and event hooks (before_cursor_execute used for fault injection)",
    "the harness derives the new table's constraints, the INSERT..SELECT mapping and the trailing index list from the operations "
    "by its own (simple) rules; that derivation is itself checked because a wrong one makes model and implementation disagree; "
    "the order of the trailing CREATE INDEX statements for pre-existing indexes is Python set order and is observed (order oracle), "
    "the theorems hold for every order",
    "definitions are compared by identity of the CREATE TABLE body text in sqlite_master (original / new as produced by the same batch "
    "on an empty clone / other)",
]
ASSUME = ["a statement made to fail raises before it reaches the database (fault injection in before_cursor_execute); "
          "naturally failing statements are atomic (SQLite statement journal)",
          "besides statement failures one Python-level failure point is modelled: _gather_indexes_from_both_tables raising KeyError (a new index on a "
          "column the new table does not have) after the rename and outside the try (PRaise; gather_ok; theorem C11_gather_failure_point)",
          "values are NULL, integers and text; CHECK constraints are of the form col >= k on integer columns"]
RULE = ("scenario = table t (INTEGER PRIMARY KEY id + 2-4 INTEGER/TEXT columns, optional NOT NULL/UNIQUE/CHECK, 0-2 indexes) with 0-5 rows "
        "(NULLs, duplicates, negative numbers, quotes/unicode) + a second table p with an index + 1-2 batch operations "
        "(set NOT NULL, add UNIQUE, add CHECK, rename column, drop column, add column [NOT NULL with/without default], create [unique] index "
        "[with a taken name / on a column dropped by the same batch or never there], drop index); hand-written scenarios (incl. a 50-character table name whose temporary name is the name itself, "
        "a 45-character name that is truncated, a left-over temporary table) + seeded random ones; every scenario is crossed with "
        "11 transaction settings (pysqlite x {own scope, caller rollback, caller commit} x {no open transaction, DML before}, transactional DDL x "
        "{own, rollback, commit}, autocommit connection [isolation_level=AUTOCOMMIT] x {own, rollback, commit}) and with EVERY single fault position 0..n+1 of the statement sequence (n = 4 + number of indexes), no fault, "
        "and the double faults that also hit the handler's DROP; each injected fault raises either an Exception subclass or a BaseException that "
        "is not an Exception (subclasses of KeyboardInterrupt / SystemExit / asyncio.CancelledError), and the context is configured with "
        "transactional_ddl unset / True / False: these two dimensions are fully crossed on the first hand-written scenario(s) and rotated "
        "through all 12 combinations over consecutive cases elsewhere. non-trivial = the batch raised and the table had rows; distinct by encoded input. "
        "exhaustive over fault positions and transaction settings per scenario, not over scenarios")
EXHAUSTIVE = {"quick": False, "thorough": False}
CASE_TIMEOUT = 60
FINDING = "C11-tmp-table-resurrected-pysqlite-rollback"
DESIGN_REF = "DESIGN.md section 5 C11"
TECHNIQUE = ("Coq proof (symbolic execution of the modelled _create program under every fault function, induction over the trailing "
             "index list, for three transaction behaviours and both outcomes) + exact correspondence of the model with the real batch "
             "recreate on SQLite under systematic fault injection, evaluated with vm_compute")
LEVEL_TEXT = ("Machine-checked theorems over all databases, tables, row sets, copy mappings, numbers of trailing indexes, fault functions "
              "(any set of failing statement positions), transaction kinds and outcomes: no row of the original table is ever lost, a failure "
              "at or before the DROP of the original leaves it identical, other tables are untouched; the temporary table is proved gone "
              "except in one class (stock sqlite3 driver, no transaction open before, INSERT..SELECT reached the database, rollback) where it is "
              "proved to be resurrected — a genuine deviation of the code from the property text, reproduced on every run. The model is compared "
              "exactly with the real code at every fault position of every generated scenario.")
LEVEL_NOTE = ("Trusted: Coq kernel + vm_compute, the statement/transaction semantics standing for SQLite + sqlite3 + SQLAlchemy (tied by the "
              "correspondence for two of the three kinds), the harness' derivation of the new definition from the operations, "
              "definition identity by CREATE TABLE text. Bookkeeping of ApplyBatchImpl (which new table is built) is C10's subject.")

TMPP = "_alembic_tmp_"





class Injected(Exception):
    pass


# exceptions that are NOT Exception subclasses: Ctrl-C during a long copy, sys.exit from a signal handler, task cancellation
class InjectedKI(KeyboardInterrupt):
    pass


class InjectedSE(SystemExit):
    pass


class InjectedCE(asyncio.CancelledError):
    pass


FCLS = {"exc": Injected, "ki": InjectedKI, "se": InjectedSE, "ce": InjectedCE}
FCLS_ORDER = ["exc", "ki", "se", "ce"]
TDDL_ORDER = [None, True, False]


# ----------------------------------------------------------------------------- scenarios

def base_scn(tname="t"):
    return dict(tname=tname,
                cols=[dict(name="id", ty="int", pk=True), dict(name="a", ty="int"), dict(name="b", ty="text")],
                uniques=[], checks=[], indexes=[dict(name="ix_a", cols=["a"], unique=False), dict(name="ix_b", cols=["b"], unique=False)],
                rows=[[1, 1, "x"], [2, None, "y"], [3, 3, "y"]], ops=[], leftover=False)


def fixed_scenarios():
    s = base_scn(); s["ops"] = [["rename", "b", "bb"]]; yield s
    s = base_scn(); s["ops"] = [["notnull", "a"]]; yield s                       # NULL in a -> copy fails
    s = base_scn(); s["ops"] = [["add_unique", "uq_b", ["b"]]]; yield s          # duplicate 'y' -> copy fails
    s = base_scn(); s["ops"] = [["add_check", "ck_a", "a", 2]]; yield s          # 1 >= 2 false -> copy fails
    s = base_scn(); s["ops"] = [["add_check", "ck_a", "a", 0]]; yield s          # passes (NULL passes a CHECK)
    s = base_scn(); s["ops"] = [["add_col", "z", "int", True, None]]; yield s    # NOT NULL without default, rows exist
    s = base_scn(); s["ops"] = [["add_col", "z", "int", True, "7"]]; yield s
    s = base_scn(); s["ops"] = [["create_index", "ix_p", ["a"], False]]; yield s  # name taken by p's index
    s = base_scn(); s["ops"] = [["create_index", "ux_b", ["b"], True]]; yield s   # unique index over duplicates
    s = base_scn(); s["ops"] = [["drop_index", "ix_a"], ["drop_col", "b"]]; s["indexes"] = [dict(name="ix_a", cols=["a"], unique=False)]; yield s
    s = base_scn(); s["ops"] = [["rename", "a", "aa"]]; s["leftover"] = True; yield s
    s = base_scn(); s["rows"] = []; s["ops"] = [["notnull", "a"]]; yield s
    s = base_scn((TMPP * 4)[:50]); s["ops"] = [["rename", "b", "bb"]]; yield s    # temp name == table name
    s = base_scn("t" * 45); s["ops"] = [["notnull", "a"]]; yield s               # temp name truncated to 50
    s = base_scn("t" * 45); s["ops"] = [["rename", "b", "bb"]]; s["indexes"] = []; yield s
    s = base_scn(); s["indexes"] = []; s["ops"] = [["notnull", "b"]]; yield s     # no NULL in b: succeeds
    # Python-level failure point: a new index names a column the new table does not have -> KeyError in
    # _gather_indexes_from_both_tables, after the rename, outside the try
    s = base_scn(); s["indexes"] = [dict(name="ix_a", cols=["a"], unique=False)]
    s["ops"] = [["drop_col", "b"], ["create_index", "ix_new", ["b"], False]]; yield s                     # dropped by the same batch
    s = base_scn(); s["ops"] = [["create_index", "ix_new", ["nope"], False]]; yield s                     # never there
    s = base_scn(); s["ops"] = [["create_index", "ix_ok", ["a"], False], ["create_index", "ux_bad", ["a", "nope"], True]]; yield s


def rand_scenario(rnd):
    ncol = rnd.randint(2, 4)
    cols = [dict(name="id", ty="int", pk=True)]
    for k in range(ncol):
        cols.append(dict(name="c%d" % k, ty=rnd.choice(["int", "int", "text"]), notnull=False))
    names = [c["name"] for c in cols[1:]]
    ty = {c["name"]: c["ty"] for c in cols}
    nrows = rnd.choice([0, 1, 2, 3, 3, 4, 5])
    rows = []
    texts = ["x", "y", "it's", "té", ""]
    for r in range(nrows):
        row = [r + 1]
        for c in cols[1:]:
            if rnd.random() < 0.25:
                row.append(None)
            elif c["ty"] == "int":
                row.append(rnd.choice([-2, 0, 1, 1, 2, 5, 2 ** 40]))
            else:
                row.append(rnd.choice(texts))
        rows.append(row)
    colvals = lambda n: [r[1 + names.index(n)] for r in rows]
    no_null = lambda n: all(v is not None for v in colvals(n))
    distinct = lambda cs: len({tuple(r[1 + names.index(n)] for n in cs) for r in rows if all(r[1 + names.index(n)] is not None for n in cs)}) == \
        len([r for r in rows if all(r[1 + names.index(n)] is not None for n in cs)])
    used = set()
    uniques, checks, indexes = [], [], []
    # existing constraints must hold on the existing rows
    for n in names:
        if rnd.random() < 0.2 and no_null(n):
            [c for c in cols if c["name"] == n][0]["notnull"] = True
    if rnd.random() < 0.3:
        cs = rnd.sample(names, rnd.randint(1, 2))
        if distinct(cs):
            uniques.append(dict(name="uq_old", cols=cs)); used |= set(cs)
    if rnd.random() < 0.3:
        n = rnd.choice([x for x in names if ty[x] == "int"] or [None])
        if n:
            vals = [v for v in colvals(n) if v is not None]
            lo = (min(vals) if vals else 0) - rnd.randint(0, 1)
            checks.append(dict(name="ck_old", col=n, lo=lo)); used.add(n)
    for k in range(rnd.randint(0, 2)):
        cs = rnd.sample(names, rnd.randint(1, 2))
        u = rnd.random() < 0.25 and distinct(cs)
        indexes.append(dict(name="ix%d" % k, cols=cs, unique=bool(u))); used |= set(cs)
    ops = []
    touched = set()
    for _ in range(rnd.randint(1, 2)):
        free = [n for n in names if n not in touched]
        kind = rnd.choice(["notnull", "notnull", "add_unique", "add_unique", "add_check", "rename", "drop_col", "add_col", "add_col",
                           "create_index", "create_index", "drop_index"])
        if kind == "notnull" and free:
            n = rnd.choice(free); touched.add(n); ops.append(["notnull", n])
        elif kind == "add_unique" and free:
            cs = rnd.sample(free, min(len(free), rnd.randint(1, 2))); touched |= set(cs); ops.append(["add_unique", "uq_n%d" % len(ops), cs])
        elif kind == "add_check":
            ints = [n for n in free if ty[n] == "int"]
            if ints:
                n = rnd.choice(ints); touched.add(n); ops.append(["add_check", "ck_n%d" % len(ops), n, rnd.choice([-5, 0, 1, 2, 3])])
        elif kind == "rename":
            cand = [n for n in free if n not in used]
            if cand:
                n = rnd.choice(cand); touched.add(n); ops.append(["rename", n, n + "_r"])
        elif kind == "drop_col":
            cand = [n for n in free if n not in used]
            if cand and len(names) - len([o for o in ops if o[0] == "drop_col"]) > 1:
                n = rnd.choice(cand); touched.add(n); ops.append(["drop_col", n])
        elif kind == "add_col":
            ops.append(["add_col", "z%d" % len(ops), rnd.choice(["int", "text"]), rnd.random() < 0.6, rnd.choice([None, None, "7"])])
        elif kind == "create_index" and free:
            cs = rnd.sample(free, min(len(free), rnd.randint(1, 2))); touched |= set(cs)
            if rnd.random() < 0.2:                                  # a column the new table will not have
                gone = [o[1] for o in ops if o[0] == "drop_col"]
                cs = cs[:1] + [rnd.choice(gone + ["nope"])]
            ops.append(["create_index", rnd.choice(["ixn%d" % len(ops), "ixn%d" % len(ops), "ix_p"]), cs, rnd.random() < 0.4])
        elif kind == "drop_index" and indexes and not any(o[0] == "drop_index" for o in ops):
            ops.append(["drop_index", indexes[0]["name"]])
    if not ops:
        ops.append(["add_col", "z9", "int", False, None])
    return dict(tname=rnd.choice(["t", "t", "t", "tbl_" + "q" * rnd.randint(30, 44)]), cols=cols, uniques=uniques, checks=checks,
                indexes=indexes, rows=rows, ops=ops, leftover=rnd.random() < 0.05)


SETTINGS = [("pysqlite", False, "own"), ("pysqlite", False, "rollback"), ("pysqlite", False, "commit"),
            ("pysqlite", True, "rollback"), ("pysqlite", True, "commit"),
            ("txddl", False, "own"), ("txddl", False, "rollback"), ("txddl", False, "commit"),
            ("autocommit", False, "own"), ("autocommit", False, "rollback"), ("autocommit", False, "commit")]


def n_index_stmts(scn):
    dropped = {o[1] for o in scn["ops"] if o[0] == "drop_index"}
    return len([i for i in scn["indexes"] if i["name"] not in dropped]) + len([o for o in scn["ops"] if o[0] == "create_index"])


def cross(scn, light=False, full=False, start=0):
    """every transaction setting x every fault set; the exception class of the injected faults and the context option
    transactional_ddl either fully crossed (full) or rotated so that consecutive cases run through all 12 combinations"""
    n = 4 + n_index_stmts(scn)
    faultsets = [[]] + [[k] for k in range(n + 2)] + [[1, 2], [2, 3], [0, 1], [1, 3]]
    settings = SETTINGS if not light else [SETTINGS[1], SETTINGS[2], SETTINGS[6]]
    cnt = start
    for (kind, pre, scope) in settings:
        for fs in faultsets:
            if full and fs:
                variants = [(td, c) for td in TDDL_ORDER for c in FCLS_ORDER]
            elif full:
                variants = [(td, "exc") for td in TDDL_ORDER]
            else:
                variants = [(TDDL_ORDER[cnt % 3], FCLS_ORDER[cnt % 4])]
            for (td, c) in variants:
                h = dict(scn)
                # a double fault: the first position raises class c, the handler's position the next class
                fc = [FCLS_ORDER[(FCLS_ORDER.index(c) + j) % 4] for j in range(len(fs))]
                h.update(kind=kind, pre=pre, scope=scope, faults=fs, fcls=fc, tddl=td, tpm=bool((cnt // 3) % 2))
                yield h
            cnt += 1


def generate(tier, seed):
    rnd = random.Random(seed * 7919 + 11)
    for k, s in enumerate(fixed_scenarios()):
        yield from cross(s, full=(k == 0 or (tier != "quick" and k < 4)), start=k)
    nrand = 12 if tier == "quick" else 200
    for k in range(nrand):
        yield from cross(rand_scenario(rnd), start=5 * k)


def search(tier, seed):
    rnd = random.Random(seed * 104729 + 11)
    for _ in range(60):
        yield from cross(rand_scenario(rnd), light=True, full=False, start=_)


# ----------------------------------------------------------------------------- plan derived from the operations (harness side)

def derive(scn):
    """new definition / transfers / final indexes in NEW column positions, from the scenario alone"""
    cols = [dict(c) for c in scn["cols"]]
    for k, c in enumerate(cols):
        c["src"] = k
        c["newname"] = c["name"]
    uniques = [list(u["cols"]) for u in scn["uniques"]]
    checks = [(c["col"], c["lo"]) for c in scn["checks"]]
    indexes = [dict(i) for i in scn["indexes"]]
    new_indexes = []
    for o in scn["ops"]:
        if o[0] == "notnull":
            [c for c in cols if c["name"] == o[1]][0]["notnull"] = True
        elif o[0] == "add_unique":
            uniques.append(list(o[2]))
        elif o[0] == "add_check":
            checks.append((o[2], o[3]))
        elif o[0] == "rename":
            [c for c in cols if c["name"] == o[1]][0]["newname"] = o[2]
        elif o[0] == "drop_col":
            cols = [c for c in cols if c["name"] != o[1]]
        elif o[0] == "add_col":
            dv = None if o[4] is None else (int(o[4]) if o[2] == "int" else o[4])
            cols.append(dict(name=o[1], newname=o[1], ty=o[2], notnull=o[3], src=None, const=dv))
        elif o[0] == "create_index":
            new_indexes.append(dict(name=o[1], cols=list(o[2]), unique=o[3]))
        elif o[0] == "drop_index":
            indexes = [i for i in indexes if i["name"] != o[1]]
    pos = {c["name"]: k for k, c in enumerate(cols)}      # by ORIGINAL (key) name
    nd = dict(notnull=[pos[c["name"]] for c in cols if c.get("notnull") or c.get("pk")],
              unique=[[pos[c["name"]] for c in cols if c.get("pk")]] + [[pos[x] for x in u] for u in uniques],
              check=[(pos[c], lo) for c, lo in checks])
    tr = [("col", c["src"]) if c["src"] is not None else ("const", c.get("const")) for c in cols]
    idx = lambda i: dict(name=i["name"], cols=[pos.get(x, len(cols) + 3) for x in i["cols"]], unique=i["unique"])   # unknown column: a position the new table does not have
    return nd, tr, [idx(i) for i in indexes], [idx(i) for i in new_indexes]


def old_def(scn):
    pos = {c["name"]: k for k, c in enumerate(scn["cols"])}
    return dict(notnull=[pos[c["name"]] for c in scn["cols"] if c.get("notnull") or c.get("pk")],
                unique=[[pos[c["name"]] for c in scn["cols"] if c.get("pk")]] + [[pos[x] for x in u["cols"]] for u in scn["uniques"]],
                check=[(pos[c["col"]], c["lo"]) for c in scn["checks"]]), \
        [dict(name=i["name"], cols=[pos[x] for x in i["cols"]], unique=i["unique"]) for i in scn["indexes"]]


# ----------------------------------------------------------------------------- Coq encoders

def nat(k):
    return "%d%%nat" % k


def natl(xs):
    return cf.lst(nat(x) for x in xs)


def zint(z):
    return "(%d)%%Z" % z


def val(v):
    if v is None:
        return "VNull"
    if isinstance(v, bool):
        raise TypeError("bool value")
    if isinstance(v, int):
        return "(VInt %s)" % zint(v)
    if isinstance(v, str):
        return "(VText %s)" % cf.string(v)
    raise TypeError("unsupported value %r" % (v,))


def rowc(r):
    return cf.lst(val(v) for v in r)


def idxc(i):
    return "(mkIdx %s %s %s)" % (cf.string(i["name"]), natl(i["cols"]), cf.boolean(i["unique"]))


def defc(tag, d):
    return "(mkDef %d %s %s %s)" % (tag, natl(d["notnull"]), cf.lst(natl(u) for u in d["unique"]),
                                    cf.lst("(%s, %s)" % (nat(c), zint(lo)) for c, lo in d["check"]))


def tablec(tag, d, rows, idxs):
    return "(mkTable %s %s %s)" % (defc(tag, d), cf.lst(rowc(r) for r in rows), cf.lst(idxc(i) for i in idxs))


def skindc(k):
    if k[0] == "create":
        return "(KCreate %s)" % cf.string(k[1])
    if k[0] == "copy":
        return "(KCopy %s %s)" % (cf.string(k[1]), cf.string(k[2]))
    if k[0] == "drop":
        return "(KDrop %s)" % cf.string(k[1])
    if k[0] == "rename":
        return "(KRename %s %s)" % (cf.string(k[1]), cf.string(k[2]))
    if k[0] == "index":
        return "(KIndex %s %s)" % (cf.string(k[1]), cf.string(k[2]))
    raise ValueError(k)


def obsc(ob):
    return cf.lst("(%s, (%d, %s, %s))" % (cf.string(n), t["tag"], cf.lst(rowc(r) for r in t["rows"]),
                                           cf.lst(cf.string(x) for x in t["idx"])) for n, t in sorted(ob.items()))


ERRC = {None: "None", "Injected": "(Some EInjected)", "Interrupt": "(Some EInterrupt)", "IntegrityError": "(Some EIntegrity)",
        "OperationalError": "(Some EOperational)", "other:KeyError": "(Some EPython)"}

TAG_OLD, TAG_NEW, TAG_P, TAG_LEFT, TAG_UNKNOWN = 10, 11, 12, 13, 99
P_DEF = dict(notnull=[0], unique=[[0]], check=[])
LEFT_DEF = dict(notnull=[], unique=[], check=[])


# ----------------------------------------------------------------------------- driving the real code

_ident = r'"?([A-Za-z0-9_]+)"?'
PATS = [
    (re.compile(r"^\s*CREATE\s+TABLE\s+" + _ident, re.I), lambda m, s: ("create", m.group(1))),
    (re.compile(r"^\s*INSERT\s+INTO\s+" + _ident, re.I), None),
    (re.compile(r"^\s*DROP\s+TABLE\s+" + _ident, re.I), lambda m, s: ("drop", m.group(1))),
    (re.compile(r"^\s*ALTER\s+TABLE\s+" + _ident + r"\s+RENAME\s+TO\s+" + _ident, re.I), lambda m, s: ("rename", m.group(1), m.group(2))),
    (re.compile(r"^\s*CREATE\s+(?:UNIQUE\s+)?INDEX\s+" + _ident + r"\s+ON\s+" + _ident, re.I), lambda m, s: ("index", m.group(2), m.group(1))),
]
_from = re.compile(r"\bFROM\s+" + _ident + r"\s*$", re.I)


def parse_stmt(sql):
    flat = " ".join(sql.split())
    for k, (pat, fn) in enumerate(PATS):
        m = pat.match(flat)
        if m:
            if fn is None:
                f = _from.search(flat)
                if not f:
                    raise RuntimeError("INSERT without trailing FROM: %r" % flat)
                return ("copy", f.group(1), m.group(1))
            return fn(m, flat)
    return None


def body_of(sql):
    """canonical CREATE TABLE body: column definitions in order, then the table constraints sorted
    (ApplyBatchImpl collects the constraints from a Python set, so their order in the text varies)"""
    flat = " ".join(sql.split())
    inner = flat[flat.index("(") + 1:flat.rindex(")")]
    items, depth, cur = [], 0, ""
    for ch in inner:
        if ch == "(":
            depth += 1
        elif ch == ")":
            depth -= 1
        if ch == "," and depth == 0:
            items.append(cur.strip()); cur = ""
        else:
            cur += ch
    if cur.strip():
        items.append(cur.strip())
    isc = lambda it: re.match(r"^(CONSTRAINT|PRIMARY KEY|UNIQUE|CHECK|FOREIGN KEY)\b", it, re.I) is not None
    return json.dumps([[it for it in items if not isc(it)], sorted(it for it in items if isc(it))])


def build_schema(sa, scn, with_rows, with_p_index, leftover):
    m = sa.MetaData()
    tyo = {"int": sa.Integer, "text": sa.Text}
    args = []
    for c in scn["cols"]:
        args.append(sa.Column(c["name"], tyo[c["ty"]], primary_key=bool(c.get("pk")), nullable=not (c.get("notnull") or c.get("pk"))))
    for u in scn["uniques"]:
        args.append(sa.UniqueConstraint(*u["cols"], name=u["name"]))
    for c in scn["checks"]:
        args.append(sa.CheckConstraint("%s >= %d" % (c["col"], c["lo"]), name=c["name"]))
    t = sa.Table(scn["tname"], m, *args)
    for i in scn["indexes"]:
        sa.Index(i["name"], *[t.c[x] for x in i["cols"]], unique=i["unique"])
    p = sa.Table("p", m, sa.Column("id", sa.Integer, primary_key=True))
    if with_p_index:
        sa.Index("ix_p", p.c.id)
    if leftover:
        sa.Table(calc_tmp(scn["tname"]), m, sa.Column("x", sa.Integer))
    return m, t, p


def calc_tmp(tname):
    return (TMPP + tname)[0:50]


def apply_ops(sa, b, scn):
    tyo = {"int": sa.Integer, "text": sa.Text}
    for o in scn["ops"]:
        if o[0] == "notnull":
            b.alter_column(o[1], nullable=False)
        elif o[0] == "add_unique":
            b.create_unique_constraint(o[1], list(o[2]))
        elif o[0] == "add_check":
            b.create_check_constraint(o[1], "%s >= %d" % (o[2], o[3]))
        elif o[0] == "rename":
            b.alter_column(o[1], new_column_name=o[2])
        elif o[0] == "drop_col":
            b.drop_column(o[1])
        elif o[0] == "add_col":
            b.add_column(sa.Column(o[1], tyo[o[2]], nullable=not o[3], server_default=o[4]))
        elif o[0] == "create_index":
            b.create_index(o[1], list(o[2]), unique=bool(o[3]))
        elif o[0] == "drop_index":
            b.drop_index(o[1])
        else:
            raise ValueError(o)


def run_case(h):
    import logging
    import warnings
    warnings.simplefilter("ignore")
    logging.disable(logging.CRITICAL)
    import sqlalchemy as sa
    from sqlalchemy import event
    from alembic.operations import Operations
    from alembic.runtime.migration import MigrationContext

    scn = h
    tname = scn["tname"]
    tmpn = calc_tmp(tname)
    same_name = tmpn == tname
    leftover = bool(scn["leftover"]) and not same_name
    td = tempfile.mkdtemp(prefix="avc11")
    try:
        # --- what the new definition looks like: the same batch, no fault, on an empty clone without the index clash
        e0 = sa.create_engine("sqlite://")
        m0, _, _ = build_schema(sa, scn, False, False, False)
        m0.create_all(e0)
        new_body = None
        if not same_name:
            with e0.begin() as c0:
                old_body = body_of(c0.exec_driver_sql("select sql from sqlite_master where name=?", (tname,)).scalar())
                op0 = Operations(MigrationContext.configure(c0))
                with op0.batch_alter_table(tname, recreate="always") as b0:      # (the table's body does not depend on new indexes)
                    apply_ops(sa, b0, dict(scn, ops=[o for o in scn["ops"] if o[0] != "create_index"]))
                new_body = body_of(c0.exec_driver_sql("select sql from sqlite_master where name=?", (tname,)).scalar())
                if any(r[0].startswith(TMPP) for r in c0.exec_driver_sql("select name from sqlite_master where type='table'")):
                    raise RuntimeError("dry run left a temporary table")
        e0.dispose()

        path = os.path.join(td, "db.sqlite")

        def mk_engine():
            if h["kind"] == "autocommit":
                return sa.create_engine("sqlite:///" + path, isolation_level="AUTOCOMMIT")
            e = sa.create_engine("sqlite:///" + path)
            if h["kind"] == "txddl":
                @event.listens_for(e, "connect")
                def _c(dbapi_connection, rec):
                    dbapi_connection.isolation_level = None

                @event.listens_for(e, "begin")
                def _b(conn):
                    conn.exec_driver_sql("BEGIN")
            return e

        e = mk_engine()
        m, t, p = build_schema(sa, scn, True, True, leftover)
        m.create_all(e)
        with e.begin() as c:
            if scn["rows"]:
                c.execute(t.insert(), [dict(zip([x["name"] for x in scn["cols"]], r)) for r in scn["rows"]])
            c.execute(p.insert(), [dict(id=1)])
            if leftover:
                c.exec_driver_sql("insert into %s (x) values (42)" % tmpn)
            bodies = {r[0]: body_of(r[1]) for r in c.exec_driver_sql("select name, sql from sqlite_master where type='table'")}
        old_body = bodies[tname]
        p_body = bodies["p"]
        left_body = bodies.get(tmpn) if leftover else None
        same_def = (new_body == old_body)

        def tag_of(body):
            if body == old_body:
                return TAG_OLD
            if new_body is not None and body == new_body:
                return TAG_NEW
            if body == p_body:
                return TAG_P
            if left_body is not None and body == left_body:
                return TAG_LEFT
            return TAG_UNKNOWN

        def observe(conn):
            out = {}
            for n, sql in conn.exec_driver_sql("select name, sql from sqlite_master where type='table' order by name").fetchall():
                rows = [list(r) for r in conn.exec_driver_sql('select * from "%s"' % n).fetchall()]
                rows.sort(key=lambda r: [(0, 0, "") if v is None else (1, v, "") if isinstance(v, int) else (2, 0, v) for v in r])
                ix = sorted(r[0] for r in conn.exec_driver_sql(
                    "select name from sqlite_master where type='index' and tbl_name=? and name not like 'sqlite_autoindex%'", (n,)).fetchall())
                out[n] = dict(tag=tag_of(body_of(sql)), rows=rows, idx=ix)
            return out

        log = []
        armed = [False]
        fs = dict(zip(h["faults"], h.get("fcls") or ["exc"] * len(h["faults"])))

        @event.listens_for(e, "before_cursor_execute")
        def bce(conn, cur, stmt, params, ctx, many):
            if not armed[0]:
                return
            k = parse_stmt(stmt)
            if k is None:
                return
            pos = len(log)
            log.append(k)
            if pos in fs:
                raise FCLS[fs[pos]]("injected at %d" % pos)

        err = None
        conn = e.connect()
        try:
            trans = None
            if h["scope"] != "own":
                trans = conn.begin()
                if h["pre"]:
                    conn.exec_driver_sql("DELETE FROM p WHERE 0")      # a DML statement: the stock driver opens a transaction
            elif h["pre"]:
                raise ValueError("own scope with a transaction already open")
            armed[0] = True
            try:
                opts = {} if h.get("tddl") is None else {"transactional_ddl": bool(h["tddl"])}
                if h.get("tpm"):
                    opts["transaction_per_migration"] = True
                op = Operations(MigrationContext.configure(conn, opts=opts))
                with op.batch_alter_table(tname, recreate="always") as b:
                    apply_ops(sa, b, scn)
            except Injected:
                err = "Injected"
            except (InjectedKI, InjectedSE, InjectedCE):
                err = "Interrupt"
            except sa.exc.IntegrityError:
                err = "IntegrityError"
            except sa.exc.OperationalError:
                err = "OperationalError"
            except Exception as x:
                err = "other:" + type(x).__name__
            armed[0] = False
            mid = observe(conn)
            if trans is not None:
                if h["scope"] == "commit":
                    trans.commit()
                else:
                    trans.rollback()
            else:
                if conn.in_transaction():
                    conn.rollback()
            same_after = observe(conn)
            if conn.in_transaction():
                conn.rollback()
        finally:
            conn.close()
            e.dispose()
        e2 = sa.create_engine("sqlite:///" + path)
        with e2.connect() as c2:
            final = observe(c2)
        e2.dispose()
        if same_after != final:
            err = "other:same-connection-differs-from-fresh"
    finally:
        shutil.rmtree(td, ignore_errors=True)

    # --- encode
    nd, tr, kept_idx, new_idx = derive(scn)
    od, old_idx = old_def(scn)
    seen = [k[2] for k in log if k[0] == "index"]
    kept_by = {i["name"]: i for i in kept_idx}
    ordered = [kept_by[n] for n in seen if n in kept_by]
    ordered += [i for i in sorted(kept_idx, key=lambda i: i["name"]) if i["name"] not in seen]
    ixs = ordered + new_idx
    db = [(tname, tablec(TAG_OLD, od, scn["rows"], old_idx)),
          ("p", tablec(TAG_P, P_DEF, [[1]], [dict(name="ix_p", cols=[0], unique=False)]))]
    if leftover:
        db.append((tmpn, tablec(TAG_LEFT, LEFT_DEF, [[42]], [])))
    fpairs = list(zip(h["faults"], h.get("fcls") or ["exc"] * len(h["faults"])))
    cin = "(mkIn %s %s %s %s %s %s %s %s %s %s %s)" % (
        {"pysqlite": "Pysqlite", "txddl": "TxDDL", "autocommit": "AutoCommit"}[h["kind"]], cf.boolean(h["pre"]),
        cf.lst("(%s, Some %s)" % (cf.string(n), t_) for n, t_ in db), cf.string(tname),
        defc(TAG_OLD if same_def else TAG_NEW, nd),
        cf.lst("(TCol %s)" % nat(x) if k == "col" else "(TConst %s)" % val(x) for k, x in tr),
        cf.lst(idxc(i) for i in ixs),
        cf.lst("(%s, %s)" % (nat(k), "EInjected" if c == "exc" else "EInterrupt") for k, c in fpairs),
        {"own": "OwnScope", "rollback": "(Caller Rollback)", "commit": "(Caller Commit)"}[h["scope"]],
        "None" if h.get("tddl") is None else "(Some %s)" % cf.boolean(h["tddl"]), cf.boolean(bool(h.get("tpm"))))
    errc = ERRC.get(err, "(Some EOther)")
    cout = "(mkOut %s %s %s %s)" % (errc, cf.lst(skindc(k) for k in log), obsc(mid), obsc(final))
    out = dict(err=err, log=[list(k) for k in log], mid=mid, final=final)
    shape = "%s%s-%s-tddl%s-%s-%s" % (h["kind"], "+pre" if h["pre"] else "", h["scope"],
                                      {None: "U", True: "T", False: "F"}[h.get("tddl")] + ("p" if h.get("tpm") else ""),
                                      "nofault" if not h["faults"] else "f%d%s" % (len(h["faults"]), (h.get("fcls") or ["exc"])[0]),
                                      (err or "ok").split(":")[0])
    return dict(cin=cin, cout=cout, out=out, nontrivial=bool(err is not None and scn["rows"]), shape=shape)


def classify(h, out):
    """the recorded deviation: stock driver, no transaction open before the batch, the INSERT..SELECT reached the database,
    failure at or before DROP of the original, rollback -> the (empty) temporary table is back; everything else is intact"""
    if not out or out.get("err") is None:
        return None
    if h["kind"] != "pysqlite" or h["pre"] or h["scope"] == "commit":
        return None
    log = out["log"]
    if any(k[0] == "rename" for k in log):
        return None
    if 0 in h["faults"] or 1 in h["faults"] or not any(k[0] == "copy" for k in log):
        return None
    tmpn = calc_tmp(h["tname"])
    fin = out["final"]
    t = fin.get(h["tname"])
    tmp = fin.get(tmpn)
    if t is None or tmp is None:
        return None
    key = lambda r: [(0, 0, "") if v is None else (1, v, "") if isinstance(v, int) else (2, 0, v) for v in r]
    if t["tag"] != TAG_OLD or sorted(t["rows"], key=key) != sorted([list(r) for r in h["rows"]], key=key):
        return None
    if sorted(t["idx"]) != sorted(i["name"] for i in h["indexes"]):
        return None
    if tmp["rows"]:
        return None
    return FINDING


def canary(h, rec):
    """corrupted final states of a FAILED batch that the decider must reject: the table and its copy both gone, a row lost,
    (failure before the rename) an index of the original changed, the temporary table left behind after a clean handler"""
    out = rec["out"]
    if out.get("err") is None:
        return []
    tname, tmpn = h["tname"], calc_tmp(h["tname"])
    log, mid, fin = out["log"], out["mid"], out["final"]
    errc = ERRC.get(out["err"], "(Some EOther)")
    mk = lambda f: "(mkOut %s %s %s %s)" % (errc, cf.lst(skindc(tuple(k)) for k in log), obsc(mid), obsc(f))
    bad = [mk({n: t for n, t in fin.items() if n not in (tname, tmpn)})]
    if h["rows"]:
        bad.append(mk({n: (dict(t, rows=t["rows"][1:]) if n in (tname, tmpn) else t) for n, t in fin.items()}))
    early = not any(k[0] == "rename" for k in log)
    if early and tname in fin:
        bad.append(mk({n: (dict(t, idx=list(t["idx"]) + ["ix_canary"]) if n == tname else t) for n, t in fin.items()}))
    clean = all(j not in h["faults"] for j, k in enumerate(log) if k[0] == "drop" and k[1] == tmpn)
    if early and clean and not h.get("leftover") and tmpn != tname and tmpn not in fin and tname in fin:
        bad.append(mk(dict(fin, **{tmpn: dict(tag=TAG_NEW, rows=[], idx=[])})))
    return bad
