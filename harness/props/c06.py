"""C06 — autogenerate is quiet on a matching database and converges in one pass.
Real compare_metadata/produce_migrations + render_python_code + execution on in-memory SQLite
vs Model.Diff.diff / Schema.apply_ops / Schema.reflect_sqlite."""
import random

from harness import coqfmt as cf
from harness import c06_schema as S

PROP = "C06"
COQ = dict(imports=["Model.Schema", "Model.Diff", "Spec.C06"], in_ty="c06_in", out_ty="c06_out",
           corr="corr_C06", decide="check_C06", inclass="inclass_C06", model="model_C06")
THEOREMS = ["C06_quiet_partial", "C06_converge_partial", "C06_quiet_refuted", "C06_converge_refuted", "C06_converge_fkname_refuted", "C06_decider_sound", "C06_model_holds"]
TRUSTED = [
    "reflect_sqlite (what SQLAlchemy 2.0 reflects from SQLite for the modelled universe) is a modelled table; it is compared "
    "with the abstraction of the really reflected tables on every case",
    "the type catalogue: a column type is what the SQLite type compiler prints (token0 family + parenthesised arguments); "
    "types outside the 12 families are not claimed",
    "apply_ops (DDL meaning of the abstract operations) is a model of alembic's operation implementations + SQLite; it is "
    "compared with the database reflected after really executing the rendered upgrade (batch and plain) on every case",
    "abstraction functions from alembic operation objects / reflected tables to abstract ops / schemas (harness/c06_schema.py), "
    "total and failing loudly on anything unrecognised",
]
ASSUME = [
    "schemas are well formed (wf_schemab): table, column and constraint/index names unique in their scope, constraints over "
    "existing columns, primary-key columns NOT NULL; additionally for the tie: no two constraints of a table over the same column set",
    "universe: tables, columns (type family + args, nullability, pk flag, server default), named unique constraints, named "
    "plain-column indexes, named foreign keys with onupdate / ondelete / deferrable / initially options in any casing; CHECKs, comments, unnamed constraints, expression indexes, "
    "non-default schemas are outside",
    "foreign key names used consistently (Diff.fk_names_ok): a name of B that also names a key of the same table in A whose "
    "signature B still wants names that same signature; otherwise convergence is REFUTED (C06_converge_fkname_refuted): the "
    "comparison matches keys by signature only and batch mode replaces the key whose name is re-used",
    "all constraints named: no unnamed unique constraint (C06_unnamed_uq_outside states what happens otherwise), no unnamed foreign key",
    "no generated (Computed) columns: batch mode cannot rebuild a table that has one (cannot INSERT into generated column), so such "
    "upgrades do not run; generated columns are covered by C07 / C20 only",
    "server defaults of the class dflt_ok (no quote, double quote, parenthesis or newline inside a Python-string default or inside a "
    "text() expression / its single pair of quotes or parentheses; Python strings non-empty): outside it the property is REFUTED "
    "(C06_quiet_refuted) - SQLiteImpl.compare_server_default reports a difference on a matching database",
    "an upgrade rendered without batch mode that contains an operation SQLite cannot ALTER may fail loudly; such a run is outside the property",
]
RULE = ("default pool includes parenthesised texts that begin and end with a string literal, ('q'), which SQLite reflects without the parentheses (order of un-wrapping in compare_server_default) || ALL 380 ordered pairs of distinct catalogue types on one indexed column, 12 pairs altering one column in two or three respects at once (type / nullability / server default), then seeded random schema pairs: A = 1-4 tables (pk "
        "column + 0-5 columns over a 20-entry type catalogue, ~35% with a server default from a 19-entry catalogue of Python-string and "
        "text() defaults; 0-3 named unique constraints / indexes; 0-2 named foreign keys, single- or two-column, to a table of lower or "
        "equal name incl. self-reference, ~45% with ON UPDATE / ON DELETE / DEFERRABLE / INITIALLY options in upper, lower and mixed case), B = A after 0-6 random changes from 18 kinds (tables/columns added or dropped, nullability, "
        "type family, type arguments, server default added/removed/changed, foreign key added/dropped/changed, constraint/index added, "
        "dropped, columns changed, unique flag flipped, kind swapped, renamed), pairs violating 'no dropped table still referenced' "
        "re-drawn; each pair is run under the 4 compare_type x compare_server_default settings, each with render_as_batch False and True "
        "(rendered with the migration context as `alembic revision --autogenerate` does, executed on a database that holds ONE ROW in every table of A - every column non-NULL; a table to which B adds a NOT NULL column without a usable default stays empty -, reflected, compared again; an exception while the rendered batch upgrade runs is a decider failure). 14 fixed pairs add a column with an SQL-expression server default (CURRENT_TIMESTAMP as text and as func.now(), (CURRENT_DATE), 1 + 2, a function call; nullable and NOT NULL) to a populated table; 40 (thorough 2000) pairs make several changes at once in the shapes of C07's seq suite (one table losing >= 2 columns and gaining >= 1, 2-5 changes inside one table, a table added together with a foreign key to it, mixed). Every fourth random pair (and 4 fixed ones) gives some string columns a collation (String(n, collation='NOCASE')): decoration outside the model that SQLite does not reflect and the comparison must not report. When finding C06-sqlite-string-default-not-quiet is registered, 4 witness "
        "cases of the refuted class are added. non-trivial = the first comparison db(A) vs B yields at least one operation; distinct "
        "by the encoded pair")
EXHAUSTIVE = {"quick": False, "thorough": False}
CASE_TIMEOUT = 60
DESIGN_REF = "DESIGN.md section 5 C06"
TECHNIQUE = ("Coq proof (induction over table / column / constraint / foreign-key lists via keyed-list lemmas, character-level lemmas about the default normalisation) that the transcribed comparators "
             "are quiet on a reflected copy and that applying their output makes a second comparison empty, tied to the code by an "
             "exact correspondence of operation lists, reflected schemas and post-upgrade schemas on seeded random pairs")
LEVEL_TEXT = ("Machine-checked theorems over all well-formed schemas of the modelled universe (any number of tables, columns, "
              "constraints, foreign keys; server defaults of the class dflt_ok): diff(reflect A, A) = [] and "
              "diff(reflect(apply(diff(reflect A, B), A)), B) = [] for every compare_type/compare_server_default setting; the "
              "full-strength statements over all server defaults are refuted with vm_compute witnesses (string defaults such as '(a)'). The model (comparators, reflection, DDL meaning) is compared exactly "
              "with the real compare/render/execute/reflect pipeline on SQLite on every run.")
LEVEL_NOTE = ("Partial: closed type catalogue, SQLite only, server defaults restricted to dflt_ok (outside: known finding), foreign keys "
              "named (options modelled), no expression indexes / unnamed constraints / CHECKs; "
              "reflection and DDL meaning are modelled tables validated by correspondence, not verified code.")


def generate(tier, seed):
    rnd = random.Random(seed * 7919 + 6)
    n = 260 if tier == "quick" else 8000
    import copy
    for A, y in S.type_matrix(True):          # all 380 ordered pairs of distinct catalogue types on one (indexed) column
        B = copy.deepcopy(A)
        B[0]["cols"][1][1], B[0]["cols"][1][2] = y[0], list(y[1])
        yield {"A": A, "B": B, "desc": ["type_matrix"]}
    # one column altered in several respects at once (type / nullability / server default in every combination)
    for (f1, a1), (f2, a2) in [((0, []), (3, [20])), ((3, [50]), (5, [10, 2])), ((9, []), (4, []))]:
        for dn in (False, True):
            for dt in (False, True):
                for dd in (False, True):
                    if dn + dt + dd < 2: continue
                    A = [{"name": 0, "cols": [[0, 0, [], False, True, None], [1, f1, list(a1), True, False, ["lit", "5"]],
                                              [2, 0, [], True, False, None]], "cons": [["ix", 0, [2], False]], "fks": []}]
                    B = copy.deepcopy(A)
                    c = B[0]["cols"][1]
                    if dn: c[3] = False
                    if dt: c[1], c[2] = f2, list(a2)
                    if dd: c[5] = ["expr", "'x'"]
                    yield {"A": A, "B": B, "desc": ["combo_alter"]}
    # decoration the comparison must not see: string columns with a collation (SQLite reflects the bare type)
    for fam, a in [(3, []), (3, [20]), (3, [50]), (4, [])]:
        A = [{"name": 0, "cols": [[0, 0, [], False, True, None], [1, fam, list(a), True, False, None], [2, 0, [], True, False, None]],
              "cons": [["ix", 0, [1], False]], "fks": [], "deco": {"collate": [1]}}]
        B = copy.deepcopy(A)
        B[0]["cols"].append([3, 3, [20], True, False, None])
        B[0]["deco"] = {"collate": [1, 3]}
        yield {"A": A, "B": B, "desc": ["collation"]}
    # a column with an SQL-expression server default added to a table that holds a row (batch mode must copy the table: SQLite
    # refuses ALTER TABLE ADD COLUMN with a non-constant default then); CURRENT_TIMESTAMP also spelled func.now()
    for d, fn_ in [(["expr", "CURRENT_TIMESTAMP"], False), (["expr", "CURRENT_TIMESTAMP"], True), (["expr", "(CURRENT_DATE)"], False),
                   (["expr", "1 + 2"], False), (["expr", "abs(-3)"], False), (["expr", "(abs(-3))"], False), (["expr", "5"], False)]:
        for nl in (True, False):
            A = [{"name": 0, "cols": [[0, 0, [], False, True, None], [1, 3, [20], True, False, None]], "cons": [], "fks": []}]
            B = copy.deepcopy(A)
            B[0]["cols"].append([2, 10 if "CURRENT" in d[1] else 0, [], nl, False, list(d)])
            if fn_: B[0]["deco"] = {"funcnow": [2]}
            yield {"A": A, "B": B, "desc": ["add_expr_default"]}
    # several changes at once (the shapes of C07's seq suite): one table losing >= 2 columns and gaining >= 1, 2-5 changes inside one
    # table, a table added together with a foreign key to it, mixed (not: a table dropped together with the foreign keys pointing at
    # it -- the side condition "no dropped table is still referenced by a table of A that stays" excludes it)
    srnd = random.Random(seed * 31337 + 6)
    shapes = ["drop2_add1", "same_table", "drop2_add1", "add_target", "mixed"]
    done = tries = 0
    nseq = 40 if tier == "quick" else 2000
    while done < nseq and tries < 40 * nseq:
        tries += 1
        A = S.gen_schema(srnd)
        ms = S.gen_mut_seq(srnd, A, shapes[done % len(shapes)])
        if ms is None: continue
        B = S.apply_mutations(A, ms)
        if not (S.no_dangling(A, B) and S.fk_names_ok(A, B)): continue
        done += 1
        yield {"A": A, "B": B, "desc": ["seq_" + shapes[(done - 1) % len(shapes)]] + [m[0] for m in ms]}
    crnd = random.Random(seed * 65537 + 6)
    for k in range(n):
        A, B, desc = S.gen_pair(rnd)
        if k % 4 == 1:
            S.add_collations(crnd, [A, B])
        yield {"A": A, "B": B, "desc": desc}
    if _finding_registered():
        yield from _witnesses()
    if _finding_registered(FINDING_FKNAME):
        yield from _fkname_witness()


FINDING = "C06-sqlite-string-default-not-quiet"
FINDING_FKNAME = "C06-fk-name-reused-for-other-signature"


def _finding_registered(fid=FINDING):
    import json, os
    p = os.path.join(os.path.dirname(os.path.dirname(os.path.dirname(os.path.abspath(__file__)))), "known_findings.json")
    try:
        return any(f.get("id") == fid for f in json.load(open(p)).get("findings", []))
    except Exception:
        return False


def _fkname_witness():
    """C06_converge_fkname_refuted: the database key f10 is renamed f16 in the model and a new key re-uses the name f10"""
    cols = [[0, 0, [], False, True, None], [1, 0, [], True, False, None], [2, 0, [], True, False, None]]
    A = [{"name": 1, "cols": cols, "cons": [], "fks": [[10, [2], 1, [0], [None, None, None, None], True]]}]
    B = [{"name": 1, "cols": cols, "cons": [], "fks": [[10, [2, 1], 1, [1, 0], [None, None, None, None], True],
                                                        [16, [2], 1, [0], [None, None, None, None], True]]}]
    yield {"A": A, "B": B, "desc": ["fk_name_reused"]}


def _witnesses():
    """the refuted class (C06_quiet_refuted): Python-string defaults outside dflt_ok; generated only once the finding is
    registered in known_findings.json, so that an unregistered tree still checks clean on the proved class"""
    for d in S.BAD_DEFAULTS:
        A = [{"name": 0, "cols": [[0, 0, [], False, True, None], [1, 3, [20], True, False, list(d)]], "cons": [], "fks": []}]
        yield {"A": A, "B": A, "desc": ["bad_default"]}


def search(tier, seed):
    rnd = random.Random(seed * 104729 + 6)
    for _ in range(3000):
        A, B, desc = S.gen_pair(rnd)
        yield {"A": A, "B": B, "desc": desc}


def _apply(h, cfg, batch, mdB):
    """fresh db(A); compare with B; render; execute; reflect; compare again"""
    e = S.fresh_db(h["A"])
    try:
        with e.connect() as conn:
            S.populate(conn, h["A"], h["B"])        # the upgrade runs on a database that holds a row in every table
            ctx, ms = S.compare(conn, mdB, cfg, batch=batch)
            err, code = S.run_upgrade(conn, ctx, ms.upgrade_ops, batch)
            if err is not None:
                return {"notrun": err}, "NotRun"
            post = S.abs_reflected(conn)
            ctx2, ms2 = S.compare(conn, mdB, cfg, batch=batch)
            second = S.abs_ops(ms2.upgrade_ops, conn.dialect)
            return {"post": post, "second": second}, "(Applied %s %s)" % (S.q_schema(post), S.q_ops(second))
    finally:
        e.dispose()


def run_case(h):
    S.quiet_logs()
    A, B = h["A"], h["B"]
    mdA, mdB = S.build_metadata(A), S.build_metadata(B)
    e = S.fresh_db(A)
    runs_out, runs_q = [], []
    nontrivial = False
    try:
        with e.connect() as conn:
            refl = S.abs_reflected(conn)
            for cfg in S.ALL_CFGS:
                _, ms0 = S.compare(conn, mdA, cfg)
                quiet = S.abs_ops(ms0.upgrade_ops, conn.dialect)
                _, ms1 = S.compare(conn, mdB, cfg)
                ops = S.abs_ops(ms1.upgrade_ops, conn.dialect)
                nontrivial = nontrivial or bool(ops)
                po, pq = _apply(h, cfg, False, mdB)
                bo, bq = _apply(h, cfg, True, mdB)
                runs_out.append({"cfg": list(cfg), "quiet": quiet, "ops": ops, "plain": po, "batch": bo})
                runs_q.append("(mkRun %s %s %s %s %s)" % (S.q_cfg(cfg), S.q_ops(quiet), S.q_ops(ops), pq, bq))
    finally:
        e.dispose()
    out = {"reflected": refl, "runs": runs_out}
    cout = "(mkOut %s %s)" % (S.q_schema(refl), cf.lst(runs_q))
    cin = "(%s, %s)" % (S.q_schema(A), S.q_schema(B))
    nops = len(runs_out[0]["ops"])
    plain_fail = any("notrun" in r["plain"] for r in runs_out)
    shape = "ops%s-%s" % ("0" if nops == 0 else "1-3" if nops <= 3 else "4+", "plainfail" if plain_fail else "plainok")
    return dict(cin=cin, cout=cout, out=out, nontrivial=nontrivial, shape=shape)


def _q_res(r):
    return "NotRun" if "notrun" in r else "(Applied %s %s)" % (S.q_schema(r["post"]), S.q_ops(r["second"]))


def _q_out(refl, runs):
    return "(mkOut %s %s)" % (S.q_schema(refl), cf.lst(
        "(mkRun %s %s %s %s %s)" % (S.q_cfg(tuple(r["cfg"])), S.q_ops(r["quiet"]), S.q_ops(r["ops"]), _q_res(r["plain"]), _q_res(r["batch"]))
        for r in runs))


def canary(human, rec):
    """corrupted observations the decider must reject: an operation reported on the matching database, an operation left after
    the batch / plain upgrade was applied, the batch upgrade not run at all, one compare setting missing"""
    out = rec.get("out") or {}
    runs = out.get("runs")
    if not runs:
        return []
    import copy
    stray = ["drop_table", 9999]
    bad = []

    def variant(edit):
        rs = copy.deepcopy(runs)
        if edit(rs) is not False:
            bad.append(_q_out(out["reflected"], rs))

    variant(lambda rs: rs[0]["quiet"].append(stray))
    variant(lambda rs: rs[-1]["batch"]["second"].append(stray) if "second" in rs[-1]["batch"] else False)
    variant(lambda rs: rs[1]["plain"]["second"].append(stray) if "second" in rs[1]["plain"] else False)
    variant(lambda rs: rs[2].__setitem__("batch", {"notrun": "canary"}))
    variant(lambda rs: rs.pop())
    return bad


def _bad_default(d):
    return d is not None and d[0] == "lit" and (d[1] == "" or any(ch in d[1] for ch in "'\"()\n"))


def classify(human, out):
    if any(_bad_default(c[5]) for Sx in (human["A"], human["B"]) for t in Sx for c in t["cols"]):
        return FINDING
    if not S.fk_names_ok(human["A"], human["B"]):
        return FINDING_FKNAME
    return None
