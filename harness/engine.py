"""Correspondence / proof-obligation engine shared by every property check.

A property plugin (harness/props/cXX.py) provides

  PROP        "C15"
  COQ         dict(imports=[...], in_ty="graph", out_ty="load_res", corr="corr_C15",
                   decide="check_C15", inclass=None|"fn", scope="N_scope")
  THEOREMS    names expected in coq/Properties/CXX.v (each followed by Print Assumptions)
  TRUSTED     list of strings (trusted base for this property)
  ASSUME      list of strings (assumptions)
  RULE        text: how cases are generated and which are non-trivial
  generate(tier, seed)      -> iterable of JSON-able "human" inputs
  run_case(human)           -> dict(cin=<Coq term>, cout=<Coq term>, out=<JSON-able impl output>,
                                     nontrivial=bool, shape=str)        (runs the REAL alembic from /repo)
  classify(human, out)      -> id of a known finding this decider failure belongs to, or None
  search(tier, seed)        -> optional extra inputs for the failing-input search

The model is evaluated inside Coq (vm_compute) on generated case files; only indices of
failing cases are printed, so nothing of Coq's pretty-printing is parsed except integers.
"""
from __future__ import annotations

import fcntl
import hashlib
import importlib
import json
import multiprocessing
import os
import re
import shutil
import signal
import subprocess
import sys
import tempfile
import time

VERIF = os.path.dirname(os.path.dirname(os.path.abspath(__file__)))
COQDIR = os.path.join(VERIF, "coq")
REPO = os.environ.get("VERIF_REPO", "/repo")
PY = "/venv/bin/python"
SHARD = 400
NPROC = min(16, os.cpu_count() or 4)
ALLOWED_AXIOMS: set[str] = set()      # every property theorem is expected to be closed

GLOBAL_TRUSTED = [
    "Coq 8.16.1 kernel incl. the vm_compute reduction machine (no native_compute)",
    "Print Assumptions output of every property theorem: expected 'Closed under the global context'",
    "hand-written Gallina model of the anchored Python functions (the Python is modelled, not verified)",
    "correspondence harness (Python): generators, encoders of implementation inputs/outputs into Coq terms",
    "no extraction: the model is run by vm_compute on generated case files",
]


def reexec_with_env():
    """Make sure we run under /venv's python with /repo's working tree first on the path."""
    want = {"PYTHONPATH": REPO, "PYTHONHASHSEED": "0", "PYTHONDONTWRITEBYTECODE": "1", "PIP_NO_INDEX": "1"}
    if os.environ.get("AV_REEXEC") != "1" or any(os.environ.get(k) != v for k, v in want.items()):
        env = dict(os.environ)
        env.update(want)
        env["AV_REEXEC"] = "1"
        os.execve(PY, [PY] + sys.argv, env)


def assert_repo_alembic():
    import alembic
    f = os.path.realpath(alembic.__file__)
    if not f.startswith(os.path.realpath(REPO) + os.sep):
        raise SystemExit("alembic imported from %s, not from %s" % (f, REPO))
    return f


def repo_head():
    try:
        h = subprocess.run(["git", "-C", REPO, "rev-parse", "HEAD"], capture_output=True, text=True).stdout.strip()
        d = subprocess.run(["git", "-C", REPO, "diff", "HEAD"], capture_output=True, text=True).stdout
        if d.strip():
            return "dirty:%s+%s" % (h[:10], hashlib.sha1(d.encode()).hexdigest()[:10])
        return h
    except Exception:
        return "unknown"


# ----------------------------------------------------------------------------- Coq build

def v_files():
    out = []
    for sub in ("Base", "Model", "Spec", "Proofs", "Gen", "Properties"):
        d = os.path.join(COQDIR, sub)
        if os.path.isdir(d):
            for f in sorted(os.listdir(d)):
                if f.endswith(".v"):
                    out.append("%s/%s" % (sub, f))
    return out


class Lock:
    def __enter__(self):
        self.f = open(os.path.join(COQDIR, ".lock"), "w")
        fcntl.flock(self.f, fcntl.LOCK_EX)
        return self

    def __exit__(self, *a):
        fcntl.flock(self.f, fcntl.LOCK_UN)
        self.f.close()


def write_coqproject():
    files = v_files()
    txt = "-Q . AV\n" + "\n".join(files) + "\n"
    p = os.path.join(COQDIR, "_CoqProject")
    old = open(p).read() if os.path.exists(p) else None
    if old != txt:
        open(p, "w").write(txt)
        subprocess.run(["coq_makefile", "-f", "_CoqProject", "-o", "Makefile"], cwd=COQDIR, check=True,
                       capture_output=True)
    elif not os.path.exists(os.path.join(COQDIR, "Makefile")):
        subprocess.run(["coq_makefile", "-f", "_CoqProject", "-o", "Makefile"], cwd=COQDIR, check=True,
                       capture_output=True)


def make(targets, timeout=3000):
    """full .vo build of the given targets (never -vos); returns (ok, log)"""
    with Lock():
        write_coqproject()
        cmd = ["make", "-j%d" % NPROC] + (targets + ["Base/Harness.vo"] if targets else targets)
        try:
            p = subprocess.run(cmd, cwd=COQDIR, capture_output=True, text=True, timeout=timeout)
            return p.returncode == 0, p.stdout + p.stderr, " ".join(cmd)
        except subprocess.TimeoutExpired as e:
            return False, "TIMEOUT " + str(e), " ".join(cmd)


FORBIDDEN = re.compile(r"\b(Admitted|admit|Axiom|Parameter|Conjecture|Unset\s+Guard|bypass_check|Admit\s+Obligations|"
                       r"Unset\s+Positivity|Unset\s+Universe|type-in-type|impredicative-set)\b")


def strip_comments(src):
    out, depth, i = [], 0, 0
    while i < len(src):
        if src.startswith("(*", i):
            depth += 1
            i += 2
        elif src.startswith("*)", i) and depth:
            depth -= 1
            i += 2
        else:
            if not depth:
                out.append(src[i])
            i += 1
    return "".join(out)


def dep_closure(root):
    """transitive `From AV Require ...` closure of a .v file (paths relative to coq/)"""
    seen, todo = [], [root]
    while todo:
        f = todo.pop()
        if f in seen or not os.path.exists(os.path.join(COQDIR, f)):
            continue
        seen.append(f)
        src = strip_comments(open(os.path.join(COQDIR, f)).read())
        for m in re.finditer(r"From\s+AV\s+Require\s+(?:Import\s+|Export\s+)?(.*?)\.(?=\s|$)", src, flags=re.S):
            for mod in m.group(1).split():
                todo.append(mod.replace(".", "/") + ".v")
        for m in re.finditer(r"(?<!AV\s)Require\s+(?:Import\s+|Export\s+)?(.*?)\.(?=\s|$)", src, flags=re.S):
            for mod in m.group(1).split():
                if mod.startswith("AV."):
                    todo.append(mod[3:].replace(".", "/") + ".v")
    return seen


def grep_forbidden(files=None):
    bad = []
    for f in (files if files is not None else v_files()):
        src = strip_comments(open(os.path.join(COQDIR, f)).read())
        for m in FORBIDDEN.finditer(src):
            bad.append("%s: %s" % (f, m.group(0)))
    return bad


def check_obligations(prop, theorems):
    """Build Properties/<prop>.vo and re-compile the statement file to read Print Assumptions."""
    t0 = time.time()
    ok, log, cmd = make(["Properties/%s.vo" % prop])
    res = {"checker_cmd": "cd coq && %s && coqc -Q . AV Properties/%s.v" % (cmd, prop),
           "theorems": {}, "ok": ok, "forbidden": grep_forbidden(dep_closure("Properties/%s.v" % prop)), "log_tail": log[-2000:] if not ok else ""}
    if not ok:
        res["obligations"] = len(theorems)
        res["discharged"] = 0
        res["failed"] = ["build:" + prop]
        return res
    with tempfile.TemporaryDirectory(prefix="avprop") as td:
        src = os.path.join(COQDIR, "Properties", prop + ".v")
        dst = os.path.join(td, prop + "_pa.v")
        shutil.copy(src, dst)
        p = subprocess.run(["coqc", "-Q", COQDIR, "AV", dst], capture_output=True, text=True, timeout=1200)
    out = p.stdout
    # Print Assumptions blocks appear in order of the theorems
    src_txt = strip_comments(open(src).read())
    printed = re.findall(r"Print\s+Assumptions\s+([A-Za-z0-9_']+)\s*\.", src_txt)
    blocks = re.split(r"(?=Closed under the global context|Axioms:)", out)
    blocks = [b for b in blocks if b.startswith("Closed under") or b.startswith("Axioms:")]
    failed = []
    for i, name in enumerate(printed):
        if i >= len(blocks):
            res["theorems"][name] = "no output"
            failed.append(name)
            continue
        b = blocks[i]
        if b.startswith("Closed under"):
            res["theorems"][name] = "closed"
        else:
            axs = re.findall(r"^([A-Za-z0-9_.']+)\s*:", b, flags=re.M)
            res["theorems"][name] = "axioms: " + ", ".join(axs)
            if not set(axs) <= ALLOWED_AXIOMS:
                failed.append(name)
    for t in theorems:
        if t not in printed:
            res["theorems"][t] = "missing from Properties/%s.v" % prop
            failed.append(t)
    if p.returncode != 0:
        failed.append("coqc:" + prop)
        res["log_tail"] = (p.stdout + p.stderr)[-2000:]
    if res["forbidden"]:
        failed.append("forbidden:" + ";".join(res["forbidden"]))
    names = sorted(set(printed) | set(theorems))
    res["files"] = dep_closure("Properties/%s.v" % prop)
    res["obligations"] = len(names)
    res["discharged"] = len([n for n in names if res["theorems"].get(n) == "closed"])
    res["failed"] = failed
    res["wall_s"] = round(time.time() - t0, 2)
    return res


def run_coqchk(prop):
    """independent re-check of the compiled library of one property (thorough tier); returns a summary dict"""
    try:
        p = subprocess.run(["coqchk", "-silent", "-Q", ".", "AV", "-o", "AV.Properties.%s" % prop], cwd=COQDIR,
                           capture_output=True, text=True, timeout=3000)
    except subprocess.TimeoutExpired:
        return {"ok": False, "summary": "timeout"}
    out = p.stdout + p.stderr
    i = out.find("CONTEXT SUMMARY")
    summ = re.sub(r"\s+", " ", out[i:]) if i >= 0 else out[-500:]
    m = re.search(r"\* Axioms:\s*(.*?)\s*\* Constants", out, flags=re.S)
    return {"ok": p.returncode == 0, "axioms": (m.group(1).strip() if m else "?"), "summary": summ[:1500]}


# ----------------------------------------------------------------------------- implementation side

_PLUGIN = None


def _init_worker(modname):
    global _PLUGIN
    import warnings
    warnings.simplefilter("ignore")
    _PLUGIN = importlib.import_module(modname)


class _Timeout(BaseException):
    """not an Exception: a plugin's (or a migration script's) `except Exception` must not swallow the time-out"""
    pass


def _alarm(signum, frame):
    raise _Timeout()


def _run_one(args):
    idx, human, tmo = args
    signal.signal(signal.SIGALRM, _alarm)
    # fires again every few seconds after the limit: code that swallows the first one (`except BaseException`, a retry
    # loop around a hanging call) is interrupted again until the case is left
    signal.setitimer(signal.ITIMER_REAL, tmo, 3)
    try:
        r = _PLUGIN.run_case(human)
        if r is None:
            r = {"skip": True}
        r["hang"] = False
    except _Timeout:
        r = {"hang": True}
    except Exception as e:  # harness failure: fail loudly
        import traceback
        r = {"hang": False, "harness_error": "%s: %s\n%s" % (type(e).__name__, e, traceback.format_exc()[-1500:])}
    finally:
        signal.setitimer(signal.ITIMER_REAL, 0)
    r["idx"] = idx
    return r


def run_impl(modname, humans, tmo=20):
    ctx = multiprocessing.get_context("fork")
    with ctx.Pool(NPROC, initializer=_init_worker, initargs=(modname,)) as pool:
        res = pool.map(_run_one, [(i, h, tmo) for i, h in enumerate(humans)], chunksize=max(1, len(humans) // (NPROC * 8)))
    return res


# ----------------------------------------------------------------------------- model side (Coq)

def _shard_text(coq, pairs):
    imports = "\n".join("From AV Require Import %s." % i for i in ["Base.Harness"] + coq["imports"])
    scope = coq.get("scope", "N_scope")
    body = ";\n  ".join("(%s,\n   %s)" % (a, b) for a, b in pairs)
    txt = "%s\nOpen Scope %s.\n%s\nDefinition cases : list ((%s) * (%s)) := [\n  %s\n].\n" % (
        imports, scope, coq.get("preamble", ""), coq["in_ty"], coq["out_ty"], body)
    txt += "Eval vm_compute in (bad_idx %s cases).\n" % coq["corr"]
    txt += "Eval vm_compute in (bad_idx %s cases).\n" % coq["decide"]
    if coq.get("inclass"):
        txt += "Eval vm_compute in (true_idx %s (map fst cases)).\n" % coq["inclass"]
    return txt


def _coqc(path):
    try:
        p = subprocess.run("ulimit -s unlimited 2>/dev/null; exec coqc -Q %s AV %s" % (COQDIR, path), shell=True,
                           capture_output=True, text=True, timeout=1500)
        return p.returncode, p.stdout, p.stderr
    except subprocess.TimeoutExpired:
        return 124, "", "timeout"


def _parse_lists(out):
    blocks = re.findall(r"=\s*(.*?)\s*:\s*list\s+N", out, flags=re.S)
    return [[int(x) for x in re.findall(r"\d+", re.sub(r"%N", "", b))] for b in blocks]


def eval_cases(coq, pairs):
    """returns (corr_bad, decide_bad, inclass) as sets of indices into pairs, or raises RuntimeError"""
    td = tempfile.mkdtemp(prefix="avcases")
    try:
        shards = [pairs[i:i + SHARD] for i in range(0, len(pairs), SHARD)]
        paths = []
        for k, sh in enumerate(shards):
            p = os.path.join(td, "cases_%d.v" % k)
            open(p, "w").write(_shard_text(coq, sh))
            paths.append(p)
        with multiprocessing.get_context("fork").Pool(NPROC) as pool:
            outs = pool.map(_coqc, paths)
        corr_bad, dec_bad, incl = set(), set(), set()
        for k, (rc, out, err) in enumerate(outs):
            if rc != 0:
                raise RuntimeError("coqc failed on case shard %d: %s" % (k, (err or out)[-3000:]))
            lists = _parse_lists(out)
            need = 3 if coq.get("inclass") else 2
            if len(lists) != need:
                raise RuntimeError("unexpected coqc output on shard %d: %r" % (k, out[-2000:]))
            base = k * SHARD
            corr_bad |= {base + i for i in lists[0]}
            dec_bad |= {base + i for i in lists[1]}
            if need == 3:
                incl |= {base + i for i in lists[2]}
        if not coq.get("inclass"):
            incl = set(range(len(pairs)))
        return corr_bad, dec_bad, incl
    finally:
        shutil.rmtree(td, ignore_errors=True)


def coq_of(pl, rec):
    """the Coq side a case belongs to: plugins may declare further typed suites (SUITES = {name: COQ-like dict});
    a case names its suite in rec['suite'], default is the plugin's COQ"""
    s = (rec or {}).get("suite")
    return pl.SUITES[s] if s else pl.COQ


def eval_grouped(pl, recs, couts=None):
    """eval_cases per suite; index sets refer to positions in recs"""
    groups = {}
    for k, r in enumerate(recs):
        groups.setdefault(r.get("suite"), []).append(k)
    cb, db, ic = set(), set(), set()
    for s, ks in groups.items():
        coq = pl.SUITES[s] if s else pl.COQ
        a, b, c = eval_cases(coq, [(recs[k]["cin"], couts[k] if couts is not None else recs[k]["cout"]) for k in ks])
        cb |= {ks[i] for i in a}
        db |= {ks[i] for i in b}
        ic |= {ks[i] for i in c}
    return cb, db, ic


def eval_model_output(coq, cin):
    """model output for one input as raw Coq text (for replay files only)"""
    if not coq.get("model"):
        return None
    td = tempfile.mkdtemp(prefix="avone")
    try:
        imports = "\n".join("From AV Require Import %s." % i for i in coq["imports"])
        p = os.path.join(td, "one.v")
        open(p, "w").write("%s\nOpen Scope %s.\n%s\nEval vm_compute in (%s (%s)).\n" % (
            imports, coq.get("scope", "N_scope"), coq.get("preamble", ""), coq["model"], cin))
        rc, out, err = _coqc(p)
        return re.sub(r"\s+", " ", out).strip() if rc == 0 else "coqc failed: " + err[-500:]
    finally:
        shutil.rmtree(td, ignore_errors=True)


# ----------------------------------------------------------------------------- findings, replay, evidence

def load_findings():
    p = os.path.join(VERIF, "known_findings.json")
    if not os.path.exists(p):
        return {"findings": [], "fixed": []}
    return json.load(open(p))


def write_replay(prop, kind, obligation, seed, tier, human, rec, coq, note=""):
    os.makedirs(os.path.join(VERIF, "replays"), exist_ok=True)
    canon = json.dumps({"h": human, "o": obligation, "k": kind}, sort_keys=True, default=str)
    sha = hashlib.sha1(canon.encode()).hexdigest()[:12]
    path = os.path.join(VERIF, "replays", "%s-%s.json" % (prop, sha))
    doc = {"property": prop, "kind": kind, "obligation": obligation, "seed": seed, "tier": tier,
           "human": human, "impl_output": (rec or {}).get("out"), "case_in": (rec or {}).get("cin"),
           "case_out": (rec or {}).get("cout"),
           "model_output": eval_model_output(coq, rec["cin"]) if rec and rec.get("cin") else None,
           "note": note, "repo_head": repo_head()}
    json.dump(doc, open(path, "w"), indent=1, default=str)
    return os.path.relpath(path, VERIF)


def size_of(h):
    return len(json.dumps(h, default=str))


def run_check(plugin_mod, tier, seed, replay=None):
    t0 = time.time()
    pl = importlib.import_module(plugin_mod)
    prop = pl.PROP
    alembic_file = assert_repo_alembic()
    lines = []
    violations = []
    exit_code = 0

    # A. proof obligations
    ob = check_obligations(prop, pl.THEOREMS)
    # every library the case files import must be built too (not all are dependencies of the statement file)
    if ob["ok"]:
        imps = set(pl.COQ.get("imports", []) if getattr(pl, "COQ", None) else [])
        for sc in getattr(pl, "SUITES", {}).values():
            imps |= set(sc.get("imports", []))
        ok2, log2, _ = make(sorted(i.replace(".", "/") + ".vo" for i in imps))
        if not ok2:
            ob["ok"] = False
            ob["failed"] = ob.get("failed", []) + ["build:case-imports"]
            ob["log_tail"] = log2[-2000:]

    # C/D/E. cases
    if replay:
        doc = json.load(open(replay))
        humans = [doc["human"]] if doc.get("human") is not None else []
    else:
        humans = []
        corpus_dir = os.path.join(VERIF, "corpus", prop)
        ncorpus = 0
        if os.path.isdir(corpus_dir):
            for f in sorted(os.listdir(corpus_dir)):
                if f.endswith(".json"):
                    humans.append(json.load(open(os.path.join(corpus_dir, f)))["human"])
                    ncorpus += 1
        humans.extend(pl.generate(tier, seed))
    recs = run_impl(plugin_mod, humans, getattr(pl, "CASE_TIMEOUT", 20))
    # a time-out under machine load is not a hang: re-run each timed-out case alone with a generous limit
    # (alone and with a generous limit; once a case is confirmed to hang, the remaining timed-out ones are not re-run)
    confirmed_hang = False
    for k, r in enumerate(recs):
        if r.get("hang") and not confirmed_hang:
            _init_worker(plugin_mod)
            tmo0 = getattr(pl, "CASE_TIMEOUT", 20)
            recs[k] = _run_one((r["idx"], humans[r["idx"]], max(120, 2 * tmo0)))
            confirmed_hang = bool(recs[k].get("hang"))
    harness_errors = [r for r in recs if r.get("harness_error")]
    hangs = [r for r in recs if r.get("hang")]
    good = [r for r in recs if not r.get("hang") and not r.get("harness_error") and not r.get("skip")]
    coq_error = None
    corr_bad = dec_bad = set()
    incl = set()
    if ob["ok"] and good:
        try:
            cb, db, ic = eval_grouped(pl, good)
            corr_bad = {good[i]["idx"] for i in cb}
            dec_bad = {good[i]["idx"] for i in db}
            incl = {good[i]["idx"] for i in ic}
        except RuntimeError as e:
            coq_error = str(e)
    byidx = {r["idx"]: r for r in recs}

    known = {f["id"]: f for f in load_findings().get("findings", []) if f["property"] == prop}
    known_hit = {}
    new_fail = []
    for i in sorted(dec_bad):
        fid = pl.classify(humans[i], byidx[i].get("out")) if hasattr(pl, "classify") else None
        # a listed finding is a behaviour of the UNCHANGED code that the model reproduces exactly; a decider failure on
        # which implementation and model differ is therefore a different violation, even inside a known class
        if fid is not None and fid in known and i not in corr_bad:
            known_hit.setdefault(fid, []).append(i)
        else:
            new_fail.append(i)
    for r in hangs:
        new_fail.append(r["idx"])

    def report_violation(kind, obligation, i, note="", nofail=False):
        nonlocal exit_code
        h = humans[i] if i is not None else None
        path = write_replay(prop, kind, obligation, seed, tier, h, byidx.get(i) if i is not None else None,
                            coq_of(pl, byidx.get(i) if i is not None else None), note)
        line = "VIOLATION property=%s replay=%s" % (prop, path)
        if nofail:
            line += " no-failing-input-found"
        lines.append(line)
        violations.append({"kind": kind, "obligation": obligation, "replay": path})
        exit_code = 1

    if new_fail:
        i = min(new_fail, key=lambda k: size_of(humans[k]))
        note = "implementation hangs (timeout)" if byidx[i].get("hang") else \
            "implementation output fails the decider %s (%d failing cases in this run)" % (coq_of(pl, byidx[i])["decide"], len(new_fail))
        report_violation("failing-input", None, i, note)
    else:
        broken = []
        if not ob["ok"] or ob["failed"]:
            broken.append(("thm:" + ",".join(ob["failed"]), None, "proof obligation no longer checks: " + ob.get("log_tail", "")[-800:]))
        if coq_error:
            broken.append(("corr:%s/eval" % prop, None, coq_error[-800:]))
        if harness_errors:
            i = harness_errors[0]["idx"]
            broken.append(("corr:%s/harness" % prop, i, harness_errors[0]["harness_error"]))
        tie_bad = sorted(i for i in corr_bad if i in incl)
        if tie_bad:
            i = min(tie_bad, key=lambda k: size_of(humans[k]))
            broken.append(("corr:%s/%s" % (prop, coq_of(pl, byidx[i])["corr"]), i,
                           "model and implementation disagree on %d cases; decider holds on all of them" % len(tie_bad)))
        if broken:
            # search for a failing input with a larger budget before giving up
            found = None
            if hasattr(pl, "search") and ob["ok"] and not replay:
                sh = list(pl.search(tier, seed))
                if sh:
                    srecs = [r for r in run_impl(plugin_mod, sh, getattr(pl, "CASE_TIMEOUT", 20))]
                    sgood = [r for r in srecs if not r.get("hang") and not r.get("harness_error") and not r.get("skip")]
                    shang = [r for r in srecs if r.get("hang")]
                    try:
                        scb, sdb, _ = eval_grouped(pl, sgood)
                    except RuntimeError:
                        scb, sdb = set(), set()
                    cand = [(k, sgood[k]) for k in sdb]
                    cand = [r for k, r in cand if k in scb or not (hasattr(pl, "classify") and pl.classify(sh[r["idx"]], r.get("out")) in known)]
                    cand += shang
                    if cand:
                        r = min(cand, key=lambda r: size_of(sh[r["idx"]]))
                        found = (sh[r["idx"]], r)
            if found:
                h, r = found
                humans.append(h)
                r = dict(r)
                r["idx"] = len(humans) - 1
                byidx[r["idx"]] = r
                report_violation("failing-input", broken[0][0], r["idx"], "found by the search after: " + broken[0][2])
            else:
                obl, i, note = broken[0]
                report_violation("broken-obligation", obl, i, note, nofail=True)

    for fid, idxs in sorted(known_hit.items()):
        lines.append("KNOWN-FINDING: property=%s %s (%d cases in this run, e.g. %s)" % (
            prop, known[fid]["description"], len(idxs), json.dumps(humans[idxs[0]], default=str)[:200]))

    # canaries: corrupted implementation outputs that the decider must reject (guards against a vacuous decider)
    canary_total = canary_rejected = 0
    canary_accepted = []
    canary_kind = "plugin" if hasattr(pl, "canary") else "swap"
    if ob["ok"] and good and not replay:
        step = max(1, len(good) // 300)
        cans = []
        if hasattr(pl, "canary"):
            for r in good[::step]:
                for bad in pl.canary(humans[r["idx"]], r) or []:
                    cans.append((r, bad))
        else:
            # generic canary for plugins without their own: the output observed on ANOTHER input of the same suite
            # (a decider that accepts most of these says little); reported, never a failure by itself
            sample = good[::step]
            for a, b in zip(sample, sample[1:] + sample[:1]):
                if a.get("suite") == b.get("suite") and a["cout"] != b["cout"] and a["cin"] != b["cin"]:
                    cans.append((a, b["cout"]))
        if cans:
            try:
                _, cdb, _ = eval_grouped(pl, [c[0] for c in cans], [c[1] for c in cans])
                canary_total = len(cans)
                canary_rejected = len(cdb)
                canary_accepted = [(cans[i][0]["cin"], cans[i][1]) for i in range(len(cans)) if i not in cdb][:5]
            except RuntimeError as e:
                canary_accepted = [("coq error", str(e)[-300:])]

    # evidence
    shapes = {}
    nontriv = set()
    for r in good:
        shapes[r.get("shape", "?")] = shapes.get(r.get("shape", "?"), 0) + 1
        if r.get("nontrivial"):
            nontriv.add(hashlib.sha1((r["cin"]).encode()).hexdigest())
    samples = []
    seen_shapes = set()
    for r in good:
        s = r.get("shape", "?")
        if s not in seen_shapes and len(samples) < 8:
            seen_shapes.add(s)
            samples.append({"input": humans[r["idx"]], "impl_output": r.get("out"), "shape": s,
                            "model_agrees": r["idx"] not in corr_bad, "decider": r["idx"] not in dec_bad})
    ev = {
        "property_id": prop, "tier": tier, "seed": seed, "level": "proof",
        "coverage": {
            "obligations": ob["obligations"], "discharged": ob["discharged"],
            "checker_cmd": ob["checker_cmd"],
            "trusted_base": GLOBAL_TRUSTED + list(pl.TRUSTED),
            "theorems": ob["theorems"],
            "evaluations": len(good) + len(hangs),
            "skipped_inputs_outside_domain": len([r for r in recs if r.get("skip")]),
            "distinct_nontrivial": len(nontriv),
            "rule": pl.RULE,
            "samples": samples,
            "traces_validated_against_impl": len([r for r in good if r["idx"] in incl]),
            "model_impl_disagreements": len([i for i in corr_bad if i in incl]),
            "decider_failures": len(dec_bad),
            "outside_proved_class": len(good) - len([r for r in good if r["idx"] in incl]),
            "hangs": len(hangs),
            "canaries_kind": canary_kind + (" (outputs the plugin corrupts on purpose: all must be rejected)" if canary_kind == "plugin" else
                                            " (the output observed on a different input of the same suite; most should be rejected)"),
            "canaries_corrupted_outputs": canary_total, "canaries_rejected_by_decider": canary_rejected,
            "canaries_accepted_samples": canary_accepted,
            "by_shape": shapes,
            "known_findings_reproduced": {k: len(v) for k, v in known_hit.items()},
            "exhaustive": bool(getattr(pl, "EXHAUSTIVE", {}).get(tier, False)),
            "alembic_file": alembic_file, "repo_head": repo_head(),
        },
        "assumptions": list(pl.ASSUME),
        "wall_s": round(time.time() - t0, 2),
        "violations": len(violations),
    }
    if tier == "thorough" and ob["ok"] and not replay:
        ck = run_coqchk(prop)
        ev["coverage"]["coqchk"] = ck
        if not ck["ok"] or ck.get("axioms") not in ("<none>",):
            ev["coverage"]["coqchk_note"] = "coqchk did not report an empty axiom list; see summary"
    if hasattr(pl, "extra_evidence"):
        ev["coverage"].update(pl.extra_evidence())
    scratch_tree = os.path.realpath(os.environ.get("VERIF_REPO") or "/repo") != os.path.realpath("/repo")
    if not replay and not scratch_tree and not os.environ.get("VERIF_NO_EVIDENCE"):      # (runs against a seeded change do not count as evidence)
        os.makedirs(os.path.join(VERIF, "evidence"), exist_ok=True)
        json.dump(ev, open(os.path.join(VERIF, "evidence", prop + ".json"), "w"), indent=1, default=str)
    if hasattr(pl, "cleanup"):
        pl.cleanup()
    for ln in lines:
        print(ln)
    if replay:
        for r in recs:
            print("input      :", json.dumps(humans[r["idx"]], default=str))
            print("impl output:", json.dumps(r.get("out"), default=str))
            print("model      :", eval_model_output(coq_of(pl, r), r["cin"]) if r.get("cin") else None)
            print("agrees=%s decider=%s" % (r["idx"] not in corr_bad, r["idx"] not in dec_bad))
    print("%s %s: obligations %d/%d, cases %d (nontrivial distinct %d), disagreements %d, decider failures %d, "
          "known %d, %.1fs -> %s" % (prop, tier, ob["discharged"], ob["obligations"], len(recs), len(nontriv),
                                    len([i for i in corr_bad if i in incl]), len(dec_bad),
                                    sum(len(v) for v in known_hit.values()), time.time() - t0,
                                    "FAIL" if exit_code else "ok"))
    return exit_code
