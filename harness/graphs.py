"""Revision-graph helpers shared by the graph properties (C01, C02, ...).

A graph ("human" form) is a list of dicts in LOAD order:
   {"name": str, "down": [names], "deps": [names], "labels": [str]}
Ids in the Coq model are load positions.
"""
import itertools
import types


def _imports():
    from alembic.script.revision import Revision, RevisionMap
    from alembic.script.base import ScriptDirectory
    return Revision, RevisionMap, ScriptDirectory


def build(g, warm=False):
    """real RevisionMap + ScriptDirectory stub for a human graph; raises what alembic raises"""
    Revision, RevisionMap, ScriptDirectory = _imports()

    class Rev(Revision):
        def __init__(self, *a, **k):
            super().__init__(*a, **k)
            self.module = types.SimpleNamespace(upgrade=lambda: None, downgrade=lambda: None)
            self.doc = None
            self.path = "<mem>"

    revs = [Rev(r["name"], tuple(r["down"]) or None, dependencies=tuple(r.get("deps", ())) or None,
                branch_labels=tuple(r.get("labels", ())) or None) for r in g]
    m = RevisionMap(lambda: revs)
    m._revision_map
    sd = ScriptDirectory.__new__(ScriptDirectory)
    sd.revision_map = m
    if warm:
        # the same RevisionMap object serves many requests in real use (env.py and the command share it):
        # plan something else first so that state kept between requests is exercised
        from alembic import util as _u
        for t in ("heads", g[-1]["name"], g[0]["name"]):
            for fn in (sd._upgrade_revs, sd._downgrade_revs):
                try:
                    fn(t, ())
                except (_u.CommandError, AssertionError, KeyError):
                    pass
        try:
            sd._downgrade_revs("base", tuple(m.heads))
        except (_u.CommandError, AssertionError, KeyError):
            pass
    return m, sd


def index(g):
    return {r["name"]: i for i, r in enumerate(g)}


def label_index(g):
    """labels interned in order of first appearance in load order (the same numbering coq_graph uses)"""
    labs = {}
    for r in g:
        for l in r.get("labels", ()):
            labs.setdefault(l, len(labs))
    return labs


def coq_graph(g, m):
    """Coq term for the graph with the OBSERVED resolved / normalized dependencies (order oracle)"""
    from harness import coqfmt as cf
    ix = index(g)
    labs = {}
    out = []
    for i, r in enumerate(g):
        rev = m._revision_map[r["name"]]
        deps = [ix[d] for d in rev._resolved_dependencies]
        ndeps = [ix[d] for d in rev._normalized_resolved_dependencies]
        ls = [labs.setdefault(l, len(labs)) for l in r.get("labels", ())]
        out.append(cf.rev(i, [ix[d] for d in r["down"]], deps, ndeps, ls))
    return cf.lst(out)


def acyclic_graphs(n, names="abcdefgh"):
    """every acyclic history on n revisions in topological order a<b<c..: each later revision picks
    none / down_revision / depends_on for each earlier one  (3^(n(n-1)/2) graphs)"""
    per = [list(itertools.product(range(3), repeat=i)) for i in range(n)]
    for combo in itertools.product(*per):
        g = []
        for i, ch in enumerate(combo):
            g.append({"name": names[i], "down": [names[j] for j, c in enumerate(ch) if c == 1],
                      "deps": [names[j] for j, c in enumerate(ch) if c == 2], "labels": []})
        yield g


def closure(g):
    par = {r["name"]: set(r["down"]) | set(r.get("deps", ())) for r in g}

    def clo(S):
        out, st = set(), list(S)
        while st:
            u = st.pop()
            if u in out:
                continue
            out.add(u)
            st.extend(par[u])
        return out
    return par, clo


def antichains(g):
    par, clo = closure(g)
    names = [r["name"] for r in g]
    for k in range(len(names) + 1):
        for S in itertools.combinations(names, k):
            if any(a != b and a in clo({b}) for a in S for b in S):
                continue
            yield list(S)


def rand_dag(rnd, n, pdep=0.3, pmerge=0.3, plabel=0.0, names=None):
    if names is None and rnd.random() < 0.2:
        # sequentially numbered histories, a common convention: ids that parse as integers (incl. value 0)
        w = rnd.choice([1, 4])
        names = [str(i).zfill(w) for i in range(n)]
        rnd.shuffle(names)
    if names is None:
        names = []
        while len(names) < n:
            s = "".join(rnd.choice("0123456789abcdef") for _ in range(rnd.choice([4, 6, 12])))
            if s not in names and not s.isdigit():
                names.append(s)
    topo = names[:]
    rnd.shuffle(topo)
    pos = {x: i for i, x in enumerate(topo)}
    g = []
    nl = 0
    for x in names:
        earlier = [y for y in topo if pos[y] < pos[x]]
        downs, deps = [], []
        if earlier and rnd.random() < 0.8:
            k = 1 if rnd.random() > pmerge else min(len(earlier), rnd.choice([2, 2, 3]))
            downs = rnd.sample(earlier, k)
        rest = [y for y in earlier if y not in downs]
        if rest and rnd.random() < pdep:
            deps = rnd.sample(rest, min(len(rest), rnd.choice([1, 1, 2])))
        labels = []
        if rnd.random() < plabel:
            labels = ["lab%d" % nl]
            nl += 1
        g.append({"name": x, "down": downs, "deps": deps, "labels": labels})
    return g


class SimHeads:
    """pure-python stand-in for the version table used to reach states through alembic's own planners"""

    def __init__(self, heads=()):
        from alembic.runtime.migration import HeadMaintainer

        class HM(HeadMaintainer):
            def __init__(s, heads):
                s.heads = set(heads)
                s.rows = list(heads)

            def _insert_version(s, v):
                s.heads.add(v)
                s.rows.append(v)

            def _delete_version(s, v):
                s.heads.remove(v)
                s.rows.remove(v)

            def _update_version(s, f, t):
                s.heads.remove(f)
                s.heads.add(t)
                s.rows[s.rows.index(f)] = t
        self.hm = HM(heads)

    def apply(self, steps):
        for st in steps:
            self.hm.update_to_step(st)

    @property
    def rows(self):
        return list(self.hm.rows)


def reachable_states(rnd, g, sd, ncmds):
    """states reached by random upgrade/downgrade/stamp commands of the REAL planner from the empty database"""
    from alembic import util
    names = [r["name"] for r in g]
    sim = SimHeads()
    states = [[]]
    for _ in range(ncmds):
        kind = rnd.choice(["up", "up", "down", "stamp"])
        tgt = rnd.choice(names + (["heads"] if kind != "down" else ["base"]))
        try:
            cur = tuple(sim.rows)
            if kind == "up":
                steps = sd._upgrade_revs(tgt, cur)
            elif kind == "down":
                steps = sd._downgrade_revs(tgt, cur)
            else:
                steps = sd._stamp_revs((tgt,), cur)
            sim.apply(steps)
        except (util.CommandError, KeyError, AssertionError):
            continue
        states.append(sim.rows)
    return states


# ----------------------------------------------------------------------------- end-to-end script directories

ENV_PY = '''
from alembic import context
from sqlalchemy import create_engine
config = context.config
def run():
    engine = create_engine(config.get_main_option("sqlalchemy.url"))
    with engine.connect() as connection:
        context.configure(connection=connection, target_metadata=None)
        with context.begin_transaction():
            context.run_migrations()
run()
'''

REV_PY = '''
revision = {rev!r}
down_revision = {down!r}
branch_labels = {labels!r}
depends_on = {deps!r}
LOG = {log!r}
def upgrade():
    open(LOG, "a").write("up " + revision + "\\n")
def downgrade():
    open(LOG, "a").write("down " + revision + "\\n")
'''


def materialize(g, root):
    """write a real script directory for the human graph under root; returns (Config, logpath, dbpath)"""
    import os
    from alembic.config import Config
    sdir = os.path.join(root, "scripts")
    os.makedirs(os.path.join(sdir, "versions"))
    open(os.path.join(sdir, "env.py"), "w").write(ENV_PY)
    open(os.path.join(sdir, "script.py.mako"), "w").write("")
    log = os.path.join(root, "log.txt")
    db = os.path.join(root, "db.sqlite")
    def tup(xs):
        xs = list(xs)
        return None if not xs else (xs[0] if len(xs) == 1 else tuple(xs))
    for i, r in enumerate(g):
        open(os.path.join(sdir, "versions", "%03d_%s.py" % (i, r["name"])), "w").write(REV_PY.format(
            rev=r["name"], down=tup(r["down"]), labels=tup(r.get("labels", ())), deps=tup(r.get("deps", ())), log=log))
    cfg = Config()
    cfg.set_main_option("script_location", sdir)
    cfg.set_main_option("sqlalchemy.url", "sqlite:///" + db)
    return cfg, log, db


def db_rows(db):
    import sqlite3, os
    if not os.path.exists(db):
        return []
    con = sqlite3.connect(db)
    try:
        return [r[0] for r in con.execute("select version_num from alembic_version")]
    except sqlite3.OperationalError:
        return []
    finally:
        con.close()
