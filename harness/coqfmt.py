"""Encoders from Python values to Coq terms (text)."""


def nlist(xs):
    return "[" + "; ".join(str(int(x)) for x in xs) + "]"


def lst(xs):
    return "[" + "; ".join(xs) + "]"


def boolean(b):
    return "true" if b else "false"


def opt(x, f=str):
    return "None" if x is None else "(Some %s)" % f(x)


def string(s):
    """strings are lists of code points"""
    return nlist(ord(c) for c in s)


def rev(i, down, deps=(), ndeps=(), labels=()):
    return "(mkRev %d %s %s %s %s)" % (i, nlist(down), nlist(deps), nlist(ndeps), nlist(labels))


def graph(g):
    """g: list of dict(id, down, deps, ndeps?, labels?) in load order"""
    return lst(rev(r["id"], r["down"], r.get("deps", ()), r.get("ndeps", ()), r.get("labels", ())) for r in g)
