"""The whole-command suite shared by C01 (upgrade) and C02 (downgrade): one case = one real
`alembic.command.upgrade/downgrade(config, <target string>)` on a real script directory (files, env.py) and a real SQLite
database whose version table holds the given rows, compared with Model.Command.run_command (resolution of the string by
Model.Resolve, planning by Model.Plan, bookkeeping by Model.Heads) and judged by Spec.Command.check_cmd.

A human case is {"cmd": {"revs": [{"id","down","deps","labels"}...], "rows": [...], "up": bool, "target": str}}.
"""
import itertools
import os
import random
import shutil
import tempfile

from harness import coqfmt as cf

SUITE = dict(imports=["Base.Chars", "Spec.Command"], in_ty="cmd_in", out_ty="cres",
             corr="corr_cmd", decide="check_cmd", inclass="inclass_cmd", model="run_command")

SUITE_SEQ = dict(imports=["Base.Chars", "Spec.Command"], in_ty="list (cmd_in * cres)", out_ty="unit",
                 corr="corr_cmds", decide="check_cmds", inclass="inclass_cmds")


def S(s):
    return "[" + "; ".join(("c%d" % ord(c)) if 32 <= ord(c) <= 126 else str(ord(c)) for c in s) + "]"


# ----------------------------------------------------------------------------- running the real command

_cache = {"key": None, "root": None}


def _root_base():
    return os.path.join(tempfile.gettempdir(), "avcmd-%d-%d" % (os.getppid(), os.getpid()))


def cleanup():
    """called by the engine in the parent after the run: remove what the worker processes left"""
    import glob
    for d in glob.glob(os.path.join(tempfile.gettempdir(), "avcmd-%d-*" % os.getpid())):
        shutil.rmtree(d, ignore_errors=True)
    if _cache["root"]:
        shutil.rmtree(_cache["root"], ignore_errors=True)
        _cache["root"] = _cache["key"] = None


def _materialize(revs):
    """script directory for the history, cached per worker process while consecutive cases share the history"""
    from harness import graphs as gr
    key = repr(revs)
    if _cache["key"] == key:
        return _cache["cfg"], _cache["log"], _cache["db"]
    base = _root_base()
    shutil.rmtree(base, ignore_errors=True)
    os.makedirs(base)
    g = [{"name": r["id"], "down": r["down"], "deps": r["deps"], "labels": r["labels"]} for r in revs]
    cfg, log, db = gr.materialize(g, base)
    _cache.update(key=key, root=base, cfg=cfg, log=log, db=db)
    return cfg, log, db


def _observing_map():
    from alembic.script import revision as R
    if getattr(R.RevisionMap, "_av_observing", False):
        return R.RevisionMap

    class ObservingMap(R.RevisionMap):
        """records, without changing it, the set-iteration orders _add_branches depends on, and keeps the last instance"""
        _av_observing = True
        last = None

        def __init__(self, *a, **k):
            super().__init__(*a, **k)
            self._obs = []
            type(self).last = self

        def _add_branches(self, revisions, map_):
            obs = []
            for revision in revisions:
                if revision.branch_labels:
                    node = None
                    for node in self._get_descendant_nodes([revision], map_, include_dependencies=False):
                        pass
                    obs.append((revision.revision, node.revision))
            self._obs = obs
            return super()._add_branches(revisions, map_)
    return ObservingMap


def _set_rows(db, rows):
    import sqlite3
    con = sqlite3.connect(db)
    try:
        con.execute("DROP TABLE IF EXISTS alembic_version")
        if rows is not None:
            con.execute("CREATE TABLE alembic_version (version_num VARCHAR(32) NOT NULL, "
                        "CONSTRAINT alembic_version_pkc PRIMARY KEY (version_num))")
            con.executemany("INSERT INTO alembic_version (version_num) VALUES (?)", [(r,) for r in rows])
        con.commit()
    finally:
        con.close()


def _observe_one(cfg, log, db, revs, rows, up, target):
    """run ONE real command on the database as it is; returns (cin, cout, out)"""
    from alembic import command
    from alembic.script import revision as R
    from harness import graphs as gr
    from harness.props.c16 import _err_kind
    open(log, "w").close()
    OM = _observing_map()
    orig = R.RevisionMap
    R.RevisionMap = OM
    OM.last = None
    err = None
    try:
        try:
            (command.upgrade if up else command.downgrade)(cfg, target)
        except RecursionError:
            raise
        except Exception as e:          # the exception class is the observable
            err = _err_kind(e)
    finally:
        R.RevisionMap = orig
    word = "up " if up else "down "
    ran = [l.split(" ", 1)[1] for l in open(log).read().split("\n") if l.startswith(word)]
    other = [l for l in open(log).read().split("\n") if l and not l.startswith(word)]
    if other:
        err = err or "XOther"          # a script of the wrong direction ran
    after = gr.db_rows(db)
    m = OM.last
    oracle, ndeps, order = [], [], [r["id"] for r in revs]
    if m is not None:
        try:
            rm = m._revision_map
            oracle = list(m._obs or [])
            order = [k for k in rm if k in set(order)]
            for rid in order:
                nd = list(rm[rid]._normalized_resolved_dependencies)
                if len(nd) > 1:
                    ndeps.append((rid, nd))
        except Exception:
            pass
    # ids of the model are load positions: the order in which the real directory listed the files
    byid = {r["id"]: r for r in revs}
    revs2 = [byid[k] for k in order] + [r for r in revs if r["id"] not in set(order)]
    cin = "(mkCmd %s %s %s %s %s %s)" % (
        cf.lst("(R.mkS %s %s %s %s)" % (S(r["id"]), cf.lst(S(x) for x in r["down"]),
                                         cf.lst(S(x) for x in r["deps"]), cf.lst(S(x) for x in r["labels"]))
               for r in revs2),
        cf.lst("(%s, %s)" % (S(a), S(b)) for a, b in oracle),
        cf.lst("(%s, %s)" % (S(a), cf.lst(S(x) for x in b)) for a, b in ndeps),
        cf.lst(S(x) for x in rows), cf.boolean(up), S(target))
    if err is None:
        cout = "(COk %s %s)" % (cf.lst(S(x) for x in ran), cf.lst(S(x) for x in after))
    else:
        cout = "(CFail R.%s %s %s)" % (err, cf.lst(S(x) for x in ran), cf.lst(S(x) for x in after))
    return cin, cout, {"ran": ran, "rows_after": after, "err": err}


def run_cmd_case(h):
    import warnings
    warnings.simplefilter("ignore")
    if "cmdseq" in h:
        return run_cmdseq_case(h)
    c = h["cmd"]
    revs, rows, up, target = c["revs"], c["rows"], c["up"], c["target"]
    cfg, log, db = _materialize(revs)
    _set_rows(db, rows if rows else None)
    cin, cout, out = _observe_one(cfg, log, db, revs, rows, up, target)
    shape = "cmd-%s-n%d-%s" % ("up" if up else "down", len(revs), "ok" if out["err"] is None else out["err"])
    return dict(suite="cmd", cin=cin, cout=cout, out=out, nontrivial=bool(out["ran"]), shape=shape)


def run_cmdseq_case(h):
    """a session: the commands run one after the other on ONE database that starts empty; every command is observed
    together with the rows it found"""
    from harness import graphs as gr
    c = h["cmdseq"]
    revs = c["revs"]
    cfg, log, db = _materialize(revs)
    _set_rows(db, None)
    pairs, outs = [], []
    for up, target in c["cmds"]:
        rows = gr.db_rows(db)
        cin, cout, out = _observe_one(cfg, log, db, revs, rows, up, target)
        pairs.append("(%s, %s)" % (cin, cout))
        outs.append(dict(out, rows_before=rows, up=up, target=target))
    nran = sum(len(o["ran"]) for o in outs)
    return dict(suite="cmdseq", cin=cf.lst(pairs), cout="tt", out={"session": outs}, nontrivial=nran > 0,
                shape="cmdseq-n%d-k%d-%s" % (len(revs), len(outs), "err" if any(o["err"] for o in outs) else "ok"))


def canary(human, rec):
    """corrupted observations the decider must reject"""
    if "cmdseq" in human:
        return []
    o = rec["out"]
    if o["err"] is not None or not o["ran"]:
        return []
    ran, rows = o["ran"], o["rows_after"]
    bad = ["(COk %s %s)" % (cf.lst(S(x) for x in ran[:-1]), cf.lst(S(x) for x in rows)),            # a script did not run
           "(COk %s %s)" % (cf.lst(S(x) for x in ran), cf.lst(S(x) for x in rows + ran[:1])),        # a stale row
           "(COk %s %s)" % (cf.lst(S(x) for x in ran), cf.lst(S(x) for x in rows[1:])),              # a row lost
           "(CFail R.CmdRevision [] %s)" % cf.lst(S(x) for x in human["cmd"]["rows"])]               # refused
    if len(ran) >= 2:
        bad.append("(COk %s %s)" % (cf.lst(S(x) for x in ran[::-1]), cf.lst(S(x) for x in rows)))     # wrong order
    return [b for b in bad if b != rec["cout"]]          # (an empty table has no row to lose)


# ----------------------------------------------------------------------------- generators

NAMES = ["a1b2c", "b2c3d", "c3d4e", "d4e5f", "e5f6a", "f6a7b", "a7b8c", "b8c9d"]


def small_histories(n, names=NAMES):
    """every acyclic history on n revisions: each later revision picks none / down_revision / depends_on per earlier one"""
    per = [list(itertools.product(range(3), repeat=i)) for i in range(n)]
    for combo in itertools.product(*per):
        yield [{"id": names[i], "down": [names[j] for j, c in enumerate(ch) if c == 1],
                "deps": [names[j] for j, c in enumerate(ch) if c == 2], "labels": []} for i, ch in enumerate(combo)]


def antichains(revs):
    par = {r["id"]: set(r["down"]) | set(r["deps"]) for r in revs}

    def clo(S):
        out, st = set(), list(S)
        while st:
            u = st.pop()
            if u not in out:
                out.add(u)
                st.extend(par[u])
        return out
    ids = [r["id"] for r in revs]
    for k in range(len(ids) + 1):
        for S in itertools.combinations(ids, k):
            if any(a != b and a in clo({b}) for a in S for b in S):
                continue
            yield list(S)


def targets(revs, up, rnd=None, full=True):
    ids = [r["id"] for r in revs]
    labels = [l for r in revs for l in r["labels"]]
    if up:
        ts = ids + ["heads", "head", "base", "+1", "+2"] + [i + "+1" for i in ids]
        if full:
            ts += [i[:4] for i in ids] + [i + "-1" for i in ids[:2]] + ["zzzz", "+3", "head-1", "base+1", ids[0] + ":" + ids[-1], "-1"]
        for l in labels:
            ts += [l + "@head", l + "@+1", l + "@heads", l, l + "@" + ids[-1]] + ([l + "@+2", l + "@base"] if full else [])
    else:
        ts = ids + ["base", "-1", "-2"] + [i + "-1" for i in ids]
        if full:
            ts += [i[:4] for i in ids] + ["head", "heads", "zzzz", "-3", "head-1", "+1", ids[0] + "+1", ids[0] + ":" + ids[-1]]
        for l in labels:
            ts += [l + "@-1", l + "@base", l + "@" + ids[0], l] + ([l + "@-2", l + "@head", l + "@" + ids[-1]] if full else [])
    out = []
    for t in ts:
        if t not in out:
            out.append(t)
    return out


def rand_history(rnd, n):
    ids = []
    while len(ids) < n:
        s = "".join(rnd.choice("0123456789abcdef") for _ in range(rnd.choice([5, 6, 12])))
        if s not in ids and not s.isdigit() and not any(s[:4] == x[:4] for x in ids):
            ids.append(s)
    topo = ids[:]
    rnd.shuffle(topo)
    pos = {x: i for i, x in enumerate(topo)}
    revs, nl = [], 0
    for x in ids:
        earlier = [y for y in topo if pos[y] < pos[x]]
        downs, deps = [], []
        if earlier and rnd.random() < 0.8:
            k = 1 if rnd.random() > 0.35 else min(len(earlier), 2)
            downs = rnd.sample(earlier, k)
        rest = [y for y in earlier if y not in downs]
        if rest and rnd.random() < 0.35:
            deps = rnd.sample(rest, min(len(rest), rnd.choice([1, 1, 2])))
        labels = []
        if rnd.random() < 0.2:
            labels = ["lab%d" % nl]
            nl += 1
        revs.append({"id": x, "down": downs, "deps": deps, "labels": labels})
    return revs


def digraphs(n, names=NAMES):
    """every history on n revisions where each ordered pair (i, j), i != j, is nothing / down_revision / depends_on:
    cyclic ones included (the loader must refuse them: C15 inside the command)"""
    pairs = [(i, j) for i in range(n) for j in range(n) if i != j]
    for combo in itertools.product(range(3), repeat=len(pairs)):
        revs = [{"id": names[i], "down": [], "deps": [], "labels": []} for i in range(n)]
        for (i, j), c in zip(pairs, combo):
            if c == 1:
                revs[i]["down"].append(names[j])
            elif c == 2:
                revs[i]["deps"].append(names[j])
        yield revs


def generate(up, tier, seed):
    rnd = random.Random(seed * 31 + (1 if up else 2))
    # histories with cycles: all on 2 revisions, sampled (thorough: all) on 3
    hs = list(digraphs(2)) + (list(digraphs(3)) if tier == "thorough" else rnd.sample(list(digraphs(3)), 80))
    for revs in hs:
        for t in ([revs[0]["id"], "heads", "head"] if up else [revs[0]["id"], "base", "-1"]):
            yield {"cmd": {"revs": revs, "rows": [], "up": up, "target": t}}
    # exhaustive small scope: every history of <=3 revisions x every antichain state x every target spelling
    for n in (1, 2, 3):
        for revs in small_histories(n):
            for rows in antichains(revs):
                for t in targets(revs, up, full=(n <= 2 or tier == "thorough")):
                    yield {"cmd": {"revs": revs, "rows": rows, "up": up, "target": t}}
    # ids that contain one another (acct inside bill_acct), both nesting directions
    for nested in (["acct1", "bill_acct1", "x_bill_acct1"], ["x_bill_acct1", "bill_acct1", "acct1"]):
        for n in (2, 3):
            for revs in small_histories(n, names=nested):
                for rows in antichains(revs):
                    for t in targets(revs, up, full=False):
                        yield {"cmd": {"revs": revs, "rows": rows, "up": up, "target": t}}
    # labelled: every history of <=3 revisions with one branch label on each revision in turn
    for n in (2, 3):
        for revs in small_histories(n):
            for li in range(n):
                r2 = [dict(r, labels=(["lab0"] if i == li else [])) for i, r in enumerate(revs)]
                for rows in antichains(r2):
                    for t in targets(r2, up, full=False):
                        if "lab0" in t or tier == "thorough":
                            yield {"cmd": {"revs": r2, "rows": rows, "up": up, "target": t}}
    # four revisions: sampled (quick) / all (thorough)
    hs4 = list(small_histories(4))
    if tier == "quick":
        hs4 = rnd.sample(hs4, 40)
    for revs in hs4:
        for rows in antichains(revs):
            for t in targets(revs, up, full=False):
                yield {"cmd": {"revs": revs, "rows": rows, "up": up, "target": t}}
    # seeded random larger histories, states = random antichains
    for k in range(60 if tier == "quick" else 1500):
        revs = rand_history(rnd, rnd.randint(4, 8))
        acs = list(antichains(revs))
        for rows in rnd.sample(acs, min(len(acs), 3)):
            ts = targets(revs, up, full=True)
            for t in rnd.sample(ts, min(len(ts), 6)):
                yield {"cmd": {"revs": revs, "rows": rows, "up": up, "target": t}}


def generate_sessions(tier, seed):
    """sessions of typed commands from the empty database: every sequence of <=2 commands (from a fixed list of
    spellings) on every history of <=3 revisions (sampled in quick), random sessions of 3-6 commands on random histories"""
    rnd = random.Random(seed * 37 + 5)
    for n in (2, 3):
        hs = list(small_histories(n))
        if n == 3 and tier == "quick":
            hs = rnd.sample(hs, 6)
        for revs in hs:
            ids = [r["id"] for r in revs]
            cmds = [(True, t) for t in ids + ["heads", "+1"]] + [(False, t) for t in ids[:2] + ["base", "-1"]]
            for a in cmds:
                for b in cmds:
                    yield {"cmdseq": {"revs": revs, "cmds": [a, b]}}
    for k in range(120 if tier == "quick" else 3000):
        revs = rand_history(rnd, rnd.randint(3, 8))
        cmds = []
        for _ in range(rnd.randint(3, 6)):
            up = rnd.random() < 0.6
            cmds.append((up, rnd.choice(targets(revs, up, full=True))))
        yield {"cmdseq": {"revs": revs, "cmds": cmds}}
