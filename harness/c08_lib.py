"""C08 helpers: build real alembic operation objects from a JSON description, abstract operation objects into
the model's encoding (Coq terms), parse rendered code with Python's ast into the pyexpr encoding, execute rendered
code under Operations in as_sql mode while recording the operation objects it creates, and compare the SQL."""
import ast
import io
import re
import warnings

from harness import coqfmt as cf

DIALECTS = ["sqlite", "postgresql", "mysql", "mssql", "oracle"]
NC = {"uq": "uq_%(table_name)s_%(column_0_name)s", "fk": "fk_%(table_name)s_%(column_0_name)s",
      "ix": "ix_%(column_0_label)s", "pk": "pk_%(table_name)s"}


# a convention whose entries contain %(constraint_name)s: a plain name is expanded (once more), a conv() name is final.
# No "pk" entry: every Table has an implicit unnamed PrimaryKeyConstraint, which such an entry would reject.
NC2 = {"uq": "uq_%(table_name)s_%(constraint_name)s", "fk": "fk_%(table_name)s_%(constraint_name)s",
       "ck": "ck_%(table_name)s_%(constraint_name)s", "ix": "ix_%(table_name)s_%(constraint_name)s"}


def nc_of(nc):
    """human 'nc' field: False/0 none, True/1 the token-free convention, 2 the one with constraint_name tokens"""
    return {0: None, 1: NC, 2: NC2}[int(nc)]


class OutsideUniverse(Exception):
    """the object has a feature the model does not cover: a harness error, never silently dropped"""


# ----------------------------------------------------------------------------- Coq encoders
def S(s):
    return cf.string(s)


def opt(x, f):
    return "None" if x is None else "(Some %s)" % f(x)


def b(x):
    return "true" if x else "false"


def lst(xs, f):
    return "[" + "; ".join(f(x) for x in xs) + "]"


def e_ident(i):
    return "(mkId %s %s)" % (S(i["s"]), opt(i["q"], b))


def e_cname(n):
    if n is None:
        return "NoName"
    if "conv" in n:
        return "(Conv %s)" % S(n["conv"])
    return "(Plain %s)" % e_ident(n["plain"])


def e_pyexpr(t):
    k = t[0]
    if k == "call":
        return "(PCall %s %s)" % (lst(t[1], S), lst(t[2], e_pyexpr))
    if k == "kw":
        return "(PKw %s %s)" % (S(t[1]), e_pyexpr(t[2]))
    if k == "str":
        return "(PStr ViaRepr %s)" % S(t[1])
    if k == "bool":
        return "(PBool %s)" % b(t[1])
    if k == "none":
        return "PNone"
    if k == "int":
        return "(PInt %s %s)" % (b(t[1] < 0), S(str(abs(t[1]))))
    if k == "list":
        return "(PList %s)" % lst(t[1], e_pyexpr)
    if k == "tuple":
        return "(PTuple %s)" % lst(t[1], e_pyexpr)
    raise OutsideUniverse("pyexpr kind %r" % (k,))


def e_stmt(s):
    if s[0] == "expr":
        return "(SExpr %s)" % e_pyexpr(s[1])
    return "(SWith %s %s)" % (e_pyexpr(s[1]), lst(s[2], e_pyexpr))


def e_ty(t):
    mod = "TySa" if t["mod"] == "sa" else "(TyDialect %s)" % S(t["mod"])
    return "(mkTy %s %s %s)" % (mod, lst(t["path"], S), lst(t["args"], e_pyexpr))


def e_sd(d):
    if "str" in d:
        return "(SdStr %s)" % S(d["str"])
    if "text" in d:
        return "(SdText %s)" % S(d["text"])
    if "fetched" in d:
        return "SdFetched"
    if "identity" in d:
        i = d["identity"]
        pint = lambda n: "(%s, %s)" % (b(n < 0), S(str(abs(n))))
        return "(SdIdentity (mkIdn %s %s %s %s %s %s %s %s %s %s %s))" % (
            opt(i["always"], b), opt(i["on_null"], b), opt(i["start"], pint), opt(i["increment"], pint), opt(i["minvalue"], pint),
            opt(i["maxvalue"], pint), opt(i["nominvalue"], b), opt(i["nomaxvalue"], b), opt(i["cycle"], b), opt(i["cache"], pint),
            opt(i["order"], b))
    return "(SdComputed %s %s)" % (S(d["computed"]), opt(d["persisted"], b))


def e_col(c):
    return "(mkCol %s %s %s %s %s %s %s %s)" % (e_ident(c["name"]), e_ty(c["type"]), opt(c["default"], e_sd),
                                                opt(c["autoinc"], b), b(c["nullable"]), b(c["system"]), opt(c["comment"], S),
                                                opt(c.get("key"), S))


def e_cons(k):
    if k["k"] == "pk":
        return "(CPk %s %s)" % (lst(k["cols"], e_ident), e_cname(k["name"]))
    if k["k"] == "fk":
        return "(CFk %s %s %s %s %s %s %s %s %s)" % (
            lst(k["cols"], e_ident), lst(k["refcols"], lambda r: "(mkRef %s %s)" % (lst(r["tokens"], S), opt(r["named"], S))), e_cname(k["name"]), opt(k["onupdate"], S), opt(k["ondelete"], S),
            opt(k["initially"], S), opt(k["deferrable"], b), b(k["use_alter"]), opt(k["match"], S))
    if k["k"] == "uq":
        return "(CUq %s %s %s %s)" % (lst(k["cols"], e_ident), e_cname(k["name"]), opt(k["deferrable"], b), opt(k["initially"], S))
    if k["k"] == "ck":
        return "(CCk %s %s)" % (S(k["sql"]), e_cname(k["name"]))
    raise OutsideUniverse(k["k"])


def e_table(t):
    return "(mkTable %s %s %s %s %s %s %s)" % (e_ident(t["name"]), opt(t["schema"], e_ident), lst(t["cols"], e_col),
                                               lst(t["cons"], e_cons), opt(t["comment"], S), lst(t["prefixes"], S),
                                               opt(t["if_not_exists"], b))


def e_tri(t, f):
    if t == "keep":
        return "Keep"
    if t is None:
        return "SetNone"
    return "(SetTo %s)" % f(t["set"])


def e_ix(x):
    return "(IxCol %s %s)" % (e_ident(x["col"]), opt(x.get("key"), S)) if "col" in x else "(IxExpr %s)" % S(x["expr"])


def e_tblop(o):
    k = o["k"]
    if k == "add_column":
        return "(OAddColumn %s)" % e_col(o["col"])
    if k == "drop_column":
        return "(ODropColumn %s)" % e_ident(o["col"])
    if k == "alter_column":
        return "(OAlterColumn (mkAlter %s %s %s %s %s %s %s %s %s %s %s))" % (
            e_ident(o["col"]), opt(o["existing_type"], e_ty), e_tri(o["server_default"], e_sd), opt(o["new_name"], e_ident),
            opt(o["type"], e_ty), opt(o["nullable"], b), e_tri(o["comment"], S), opt(o["existing_comment"], S),
            opt(o["existing_nullable"], b), opt(o["autoincrement"], b), opt(o["existing_server_default"], e_sd))
    if k == "create_index":
        return "(OCreateIndex %s %s %s %s %s)" % (e_cname(o["name"]), lst(o["exprs"], e_ix), opt(o["unique"], b), opt(o["if_not_exists"], b),
                                                  e_ixkw(o["kw"]))
    if k == "drop_index":
        return "(ODropIndex %s %s %s %s)" % (e_cname(o["name"]), opt(o["if_exists"], b), b(o["name_stable"]), e_ixkw(o["kw"]))
    if k == "create_unique":
        return "(OCreateUnique %s %s %s %s)" % (e_cname(o["name"]), lst(o["cols"], e_ident), opt(o["deferrable"], b), opt(o["initially"], S))
    if k == "create_fk":
        return "(OCreateFk (mkFk %s %s %s %s %s %s %s %s %s %s %s %s))" % (
            e_cname(o["name"]), e_ident(o["referent"]), lst(o["local"], e_ident), lst(o["remote"], e_ident),
            opt(o["source_schema"], S), opt(o["referent_schema"], S), opt(o["onupdate"], S), opt(o["ondelete"], S),
            opt(o["initially"], S), opt(o["deferrable"], b), opt(o["use_alter"], b), opt(o["match"], S))
    if k == "drop_constraint":
        return "(ODropConstraint %s %s)" % (e_cname(o["name"]), opt(o["type"], e_ident))
    if k == "table_comment":
        return "(OCreateTableComment %s %s)" % (opt(o["comment"], S), opt(o["existing"], S))
    if k == "drop_table_comment":
        return "(ODropTableComment %s)" % opt(o["existing"], S)
    raise OutsideUniverse(k)


def e_top(o):
    k = o["k"]
    if k == "create_table":
        return "(TCreateTable %s)" % e_table(o["table"])
    if k == "execute":
        return "(TExecute %s)" % S(o["sql"])
    if k == "drop_table":
        return "(TDropTable %s %s %s %s)" % (e_ident(o["name"]), opt(o["schema"], e_ident), opt(o["if_exists"], b), b(o["schema_types"]))
    if k == "top":
        return "(TOp %s %s %s)" % (e_ident(o["table"]), opt(o["schema"], e_ident), e_tblop(o["op"]))
    if k == "modify":
        return "(TModify %s %s %s)" % (e_ident(o["table"]), opt(o["schema"], e_ident),
                                       lst(o["ops"], lambda m: "(%s, %s, %s)" % (e_ident(m["table"]), opt(m["schema"], e_ident), e_tblop(m["op"]))))
    raise OutsideUniverse(k)


def e_cfg(c, nc=0):
    return "(mkCfg %s %s %s %s)" % (S(c["op"]), S(c["sa"]), b(c["batch"]), b(int(nc) == 2))


# ----------------------------------------------------------------------------- python source -> pyexpr
def _path(node):
    if isinstance(node, ast.Name):
        return [node.id]
    if isinstance(node, ast.Attribute):
        return _path(node.value) + [node.attr]
    raise OutsideUniverse("call target " + ast.dump(node)[:80])


def conv_expr(n):
    if isinstance(n, ast.Call):
        args = [conv_expr(a) for a in n.args]
        for kw in n.keywords:
            if kw.arg is None:
                raise OutsideUniverse("**kwargs")
            args.append(("kw", kw.arg, conv_expr(kw.value)))
        return ("call", _path(n.func), args)
    if isinstance(n, ast.Constant):
        v = n.value
        if v is True or v is False:
            return ("bool", v)
        if v is None:
            return ("none",)
        if isinstance(v, str):
            return ("str", v)
        if isinstance(v, int):
            return ("int", v)
        raise OutsideUniverse("constant %r" % (v,))
    if isinstance(n, ast.UnaryOp) and isinstance(n.op, ast.USub) and isinstance(n.operand, ast.Constant) \
            and isinstance(n.operand.value, int) and not isinstance(n.operand.value, bool):
        return ("int", -n.operand.value)
    if isinstance(n, ast.List):
        return ("list", [conv_expr(x) for x in n.elts])
    if isinstance(n, ast.Tuple):
        return ("tuple", [conv_expr(x) for x in n.elts])
    raise OutsideUniverse("expression " + ast.dump(n)[:80])


def conv_stmt(st):
    if isinstance(st, ast.Expr):
        return ("expr", conv_expr(st.value))
    if isinstance(st, ast.With):
        if len(st.items) != 1 or not isinstance(st.items[0].optional_vars, ast.Name) or st.items[0].optional_vars.id != "batch_op":
            raise OutsideUniverse("with statement")
        body = []
        for x in st.body:
            if not isinstance(x, ast.Expr):
                raise OutsideUniverse("with body")
            body.append(conv_expr(x.value))
        return ("with", conv_expr(st.items[0].context_expr), body)
    raise OutsideUniverse("statement " + ast.dump(st)[:80])


_KIND = {"PrimaryKeyConstraint": "pk", "ForeignKeyConstraint": "fk", "UniqueConstraint": "uq", "CheckConstraint": "ck"}


def _cons_key_tree(t):
    """canonical order of the constraint arguments of create_table (the real renderer sorts their texts; the
    constraints of a table are a set).  Same key as cons_sort_key on the abstract side."""
    kind = _KIND[t[1][-1]]
    pos = [a for a in t[2] if a[0] != "kw"]
    name = ""
    for a in t[2]:
        if a[0] == "kw" and a[1] == "name":
            v = a[2]
            name = v[1] if v[0] == "str" else (v[2][0][1] if v[0] == "call" else "")
    if kind == "fk":
        cols, sql = tuple(x[1] for x in pos[0][1]), ""
    elif kind == "ck":
        cols, sql = (), pos[0][1]
    else:
        cols, sql = tuple(x[1] for x in pos), ""
    return (kind, cols, sql, name)


def canon_create_table(tree):
    """sort the sa.XConstraint(...) positional arguments of a create_table call (set comparison)"""
    if tree[0] == "call" and tree[1][-1] == "create_table":
        args = tree[2]
        pos = [a for a in args if a[0] != "kw"]
        kws = [a for a in args if a[0] == "kw"]
        head = [a for a in pos if not (a[0] == "call" and a[1][-1].endswith("Constraint"))]
        cons = sorted([a for a in pos if a[0] == "call" and a[1][-1].endswith("Constraint")], key=_cons_key_tree)
        return ("call", tree[1], head + cons + kws)
    return tree


def parse_code(code):
    """rendered upgrade body -> list of statement trees, or None on SyntaxError"""
    try:
        mod = ast.parse("def f():\n" + code + "\n")
    except SyntaxError:
        return None
    out = []
    for st in mod.body[0].body:
        if isinstance(st, ast.Pass):
            continue
        s = conv_stmt(st)
        if s[0] == "expr":
            s = ("expr", canon_create_table(s[1]))
        out.append(s)
    return out


def type_tree(type_):
    """repr(type_) as a call tree; the module decides the prefix the renderer adds"""
    mod = type(type_).__module__
    m = re.match(r"sqlalchemy\.dialects\.(\w+)", mod)
    if m:
        modname = m.group(1)
    elif mod.startswith("sqlalchemy."):
        modname = "sa"
    else:
        raise OutsideUniverse("user-defined type")
    from alembic.util import sqla_compat
    if sqla_compat._type_has_variants(type_) or type_.__visit_name__ == "ARRAY":
        raise OutsideUniverse("variant / ARRAY type")
    t = conv_expr(ast.parse(repr(type_), mode="eval").body)
    if t[0] != "call":
        raise OutsideUniverse("type repr " + repr(type_))
    return {"mod": modname, "path": t[1], "args": t[2]}


# ----------------------------------------------------------------------------- real objects -> abstract
def a_ident(x):
    if x is None:
        return None
    return {"s": str(x), "q": getattr(x, "quote", None)}


def a_cname(n):
    from sqlalchemy.sql.elements import conv
    from alembic.util import sqla_compat
    if isinstance(n, conv):
        return {"conv": str(n)}
    n = sqla_compat.constraint_name_or_none(n)
    if n is None:
        return None
    return {"plain": a_ident(n)}


def sql_token(expr):
    """DefaultImpl.render_ddl_sql_expr on the default dialect, replicated (SQLAlchemy only)"""
    from sqlalchemy.engine.default import DefaultDialect
    return str(expr.compile(dialect=DefaultDialect(), compile_kwargs={"literal_binds": True, "include_table": False}))


IDENTITY_KEYS = ["always", "on_null", "start", "increment", "minvalue", "maxvalue", "nominvalue", "nomaxvalue", "cycle", "cache", "order"]


def a_ixkw(kw):
    """the modelled dialect options of an index; anything else is outside the universe"""
    import sqlalchemy as sa
    kw = dict(kw)
    u, w, c = kw.pop("postgresql_using", None), kw.pop("postgresql_where", None), kw.pop("postgresql_concurrently", None)
    if kw:
        raise OutsideUniverse("index dialect kwargs %r" % (sorted(kw),))
    if w is not None:
        w = sql_token(w) if isinstance(w, sa.sql.ClauseElement) else str(w)
    if u is not None and not isinstance(u, str):
        raise OutsideUniverse("postgresql_using")
    return {"using": u, "where": w, "conc": c}


def e_ixkw(k):
    return "(mkIxKw %s %s %s)" % (opt(k["using"], S), opt(k["where"], S), opt(k["conc"], b))


def a_default(d):
    import sqlalchemy as sa
    from alembic.util import sqla_compat
    if d is None or d is False:
        return None
    if sqla_compat._server_default_is_computed(d):
        return {"computed": sql_token(d.sqltext), "persisted": d.persisted}
    if sqla_compat._server_default_is_identity(d):
        if getattr(d, "dialect_kwargs", None):
            raise OutsideUniverse("Identity dialect kwargs")
        return {"identity": {k: getattr(d, k, None) for k in IDENTITY_KEYS}}
    if type(d) is sa.FetchedValue:
        return {"fetched": True}
    if isinstance(d, sa.schema.DefaultClause):
        if isinstance(d.arg, str):
            return {"str": d.arg}
        return {"text": sql_token(d.arg)}
    if isinstance(d, str):
        return {"str": d}
    if isinstance(d, sa.sql.ClauseElement):
        return {"text": sql_token(d)}
    raise OutsideUniverse("server default %r" % (d,))


def key_of(c):
    """Column.key when it is not the database name"""
    return str(c.key) if c.key is not None and str(c.key) != str(c.name) else None


def ref_col(f, namespace_metadata):
    """the referred column of a ForeignKey: the tokens of ForeignKey._get_colspec() (which names the column by its KEY) and,
    where the namespace MetaData knows the table under the full name made of all the tokens but the last (the lookup
    _fk_colspec is meant to make), the column's database name.  Without a namespace MetaData (the operation objects the
    executed text creates) the spec is one opaque token."""
    spec = f._get_colspec()
    if namespace_metadata is None:
        return {"tokens": [spec], "named": None}
    if namespace_metadata.schema is not None:
        raise OutsideUniverse("MetaData(schema=...)")
    tokens = spec.split(".")
    table_fullname, colname = ".".join(tokens[:-1]), tokens[-1]
    named = None
    if not f.link_to_name and f.parent is not None and f.parent.table is not None \
            and table_fullname in namespace_metadata.tables:
        col = namespace_metadata.tables[table_fullname].c.get(colname)
        if col is not None:
            named = str(col.name)
    return {"tokens": tokens, "named": named}


def a_column(c):
    if c.kwargs:
        raise OutsideUniverse("column dialect kwargs")
    ai = c.autoincrement
    if ai == "auto":
        ai = None
    elif ai not in (True, False):
        raise OutsideUniverse("autoincrement=%r" % (ai,))
    return {"name": a_ident(c.name), "type": type_tree(c.type), "default": a_default(c.server_default), "autoinc": ai,
            "nullable": bool(c.nullable), "system": bool(c.system), "comment": c.comment, "key": key_of(c)}


def a_constraint(k, namespace_metadata=None):
    import sqlalchemy as sa
    from alembic.util import sqla_compat
    if k.dialect_kwargs:
        raise OutsideUniverse("constraint dialect kwargs")
    if isinstance(k, sa.PrimaryKeyConstraint):
        if not list(k.columns):
            return None
        return {"k": "pk", "cols": [a_ident(c.name) for c in k.columns], "name": a_cname(k.name)}
    if isinstance(k, sa.ForeignKeyConstraint):
        return {"k": "fk", "cols": [a_ident(f.parent.name) for f in k.elements],
                "refcols": [ref_col(f, namespace_metadata) for f in k.elements],
                "name": a_cname(k.name), "onupdate": k.onupdate, "ondelete": k.ondelete, "initially": k.initially,
                "deferrable": k.deferrable, "use_alter": bool(k.use_alter), "match": k.match}
    if isinstance(k, sa.UniqueConstraint):
        return {"k": "uq", "cols": [a_ident(c.name) for c in k.columns], "name": a_cname(k.name), "deferrable": k.deferrable,
                "initially": k.initially}
    if isinstance(k, sa.CheckConstraint):
        if sqla_compat._is_type_bound(k):
            return None          # derived from the column type; the renderer skips it, the type token carries it
        return {"k": "ck", "sql": sql_token(k.sqltext), "name": a_cname(k.name)}
    raise OutsideUniverse("constraint %r" % (k,))


def cons_sort_key(k):
    n = k["name"]
    name = "" if n is None else (n["conv"] if "conv" in n else n["plain"]["s"])
    return (k["k"], tuple(c["s"] for c in k.get("cols", ())), k.get("sql", ""), name)


def a_table(op):
    t = op.to_table()
    if op.info or op.kw:
        raise OutsideUniverse("table info / dialect kwargs")
    cons = [x for x in (a_constraint(k, op._namespace_metadata) for k in t.constraints) if x is not None]
    return {"name": a_ident(op.table_name), "schema": a_ident(op.schema), "cols": [a_column(c) for c in t.columns],
            "cons": cons, "comment": op.comment, "prefixes": [str(p) for p in (op.prefixes or [])],
            "if_not_exists": op.if_not_exists}


CURRENT_NC = 0      # the naming convention of the case being run (set by run_case)


def ix_name_stable(op):
    """does the convention in force give the op's index the same name with the expressions it remembers (_reverse) as with the
    dummy column DropIndexOp.to_index falls back to?  (an observation of the operation object, see Model/Render.v)"""
    import sqlalchemy as sa
    from alembic.operations import ops
    from alembic.runtime.migration import MigrationContext
    nc = nc_of(CURRENT_NC)
    if not nc or op._reverse is None:
        return True
    ctx = MigrationContext.configure(dialect_name="postgresql", opts={"target_metadata": sa.MetaData(naming_convention=nc)})
    with warnings.catch_warnings():
        warnings.simplefilter("ignore")
        a = op.to_index(ctx).name
        c = ops.DropIndexOp(op.index_name, op.table_name, schema=op.schema).to_index(ctx).name
    return (None if a is None else str(a)) == (None if c is None else str(c))


def a_tri(v, f):
    if v is False:
        return "keep"
    if v is None:
        return None
    return {"set": f(v)}


def a_tblop(op):
    from alembic.operations import ops
    import sqlalchemy as sa
    if isinstance(op, ops.AddColumnOp):
        if op.kw:
            raise OutsideUniverse("add_column kw")
        return {"k": "add_column", "col": a_column(op.column)}
    if isinstance(op, ops.DropColumnOp):
        if {k: v for k, v in op.kw.items() if v is not None}:
            raise OutsideUniverse("drop_column kw")
        return {"k": "drop_column", "col": a_ident(op.column_name)}
    if isinstance(op, ops.AlterColumnOp):
        kw = {k: v for k, v in op.kw.items() if not (k in ("insert_before", "insert_after") and v is None)}
        ai = kw.pop("autoincrement", None)
        if kw:
            raise OutsideUniverse("alter_column kw %r" % (kw,))
        esd = op.existing_server_default
        return {"k": "alter_column", "col": a_ident(op.column_name),
                "existing_type": None if op.existing_type is None else type_tree(op.existing_type),
                "server_default": a_tri(op.modify_server_default, a_default), "new_name": a_ident(op.modify_name),
                "type": None if op.modify_type is None else type_tree(op.modify_type), "nullable": op.modify_nullable,
                "comment": a_tri(op.modify_comment, lambda x: x), "existing_comment": op.existing_comment,
                "existing_nullable": op.existing_nullable, "autoincrement": ai,
                "existing_server_default": None if (esd is None or esd is False) else a_default(esd)}
    if isinstance(op, ops.CreateIndexOp):
        idx = op.to_index()
        ixkw = a_ixkw(idx.dialect_kwargs)
        exprs = []
        for e in idx.expressions:
            if isinstance(e, sa.Column):
                exprs.append({"col": a_ident(e.name), "key": key_of(e)})
            else:
                if isinstance(e, sa.sql.elements.Label):
                    raise OutsideUniverse("labelled index expression")
                exprs.append({"expr": sql_token(e)})
        return {"k": "create_index", "name": a_cname(op.index_name), "exprs": exprs, "unique": op.unique,
                "if_not_exists": op.if_not_exists, "kw": ixkw}
    if isinstance(op, ops.DropIndexOp):
        # unique is carried by from_index and irrelevant to DROP INDEX
        return {"k": "drop_index", "name": a_cname(op.index_name), "if_exists": op.if_exists, "name_stable": ix_name_stable(op),
                "kw": a_ixkw({k: v for k, v in op.kw.items() if k != "unique"})}
    if isinstance(op, ops.CreateUniqueConstraintOp):
        kw = dict(op.kw)
        d, i = kw.pop("deferrable", None), kw.pop("initially", None)
        if kw:
            raise OutsideUniverse("unique kw")
        return {"k": "create_unique", "name": a_cname(op.constraint_name), "cols": [a_ident(c) for c in op.columns],
                "deferrable": d, "initially": i}
    if isinstance(op, ops.CreateForeignKeyOp):
        kw = dict(op.kw)
        g = lambda k: kw.pop(k, None)
        r = {"k": "create_fk", "name": a_cname(op.constraint_name), "referent": a_ident(op.referent_table),
             "local": [a_ident(c) for c in op.local_cols], "remote": [a_ident(c) for c in op.remote_cols],
             "source_schema": g("source_schema"), "referent_schema": g("referent_schema"), "onupdate": g("onupdate"),
             "ondelete": g("ondelete"), "initially": g("initially"), "deferrable": g("deferrable"), "use_alter": g("use_alter"),
             "match": g("match")}
        for k in ("source_schema", "referent_schema"):
            if r[k] is not None:
                r[k] = str(r[k])
        if kw:
            raise OutsideUniverse("fk kw %r" % (kw,))
        return r
    if isinstance(op, ops.DropConstraintOp):
        return {"k": "drop_constraint", "name": a_cname(op.constraint_name), "type": a_ident(op.constraint_type)}
    if isinstance(op, ops.CreateTableCommentOp):
        return {"k": "table_comment", "comment": op.comment, "existing": op.existing_comment}
    if isinstance(op, ops.DropTableCommentOp):
        return {"k": "drop_table_comment", "existing": op.existing_comment}
    raise OutsideUniverse("operation %r" % (op,))


def tbl_of(op):
    from alembic.operations import ops
    if isinstance(op, ops.CreateForeignKeyOp):
        return a_ident(op.source_table), a_ident(op.kw.get("source_schema"))
    return a_ident(op.table_name), a_ident(op.schema)


def sa_Boolean():
    import sqlalchemy as sa
    return sa.Boolean


def a_top(op):
    from alembic.operations import ops
    if isinstance(op, ops.CreateTableOp):
        return {"k": "create_table", "table": a_table(op)}
    if isinstance(op, ops.ExecuteSQLOp):
        if not isinstance(op.sqltext, str) or op.execution_options:
            raise OutsideUniverse("execute with a construct / options")
        return {"k": "execute", "sql": op.sqltext}
    if isinstance(op, ops.DropTableOp):
        from sqlalchemy.sql.sqltypes import SchemaType
        st = any(isinstance(c.type, SchemaType) and not isinstance(c.type, sa_Boolean()) for c in op.to_table().columns)
        return {"k": "drop_table", "name": a_ident(op.table_name), "schema": a_ident(op.schema), "if_exists": op.if_exists,
                "schema_types": st}
    if isinstance(op, ops.ModifyTableOps):
        members = []
        for m in op.ops:
            tn, sc = tbl_of(m)
            members.append({"table": tn, "schema": sc, "op": a_tblop(m)})
        return {"k": "modify", "table": a_ident(op.table_name), "schema": a_ident(op.schema), "ops": members}
    tn, sc = tbl_of(op)
    return {"k": "top", "table": tn, "schema": sc, "op": a_tblop(op)}


def canon_abs(o):
    """constraints of a table are a set: canonical order for the encoding"""
    if o["k"] == "create_table":
        t = dict(o["table"])
        t["cons"] = sorted(t["cons"], key=cons_sort_key)
        return {"k": "create_table", "table": t}
    return o


# ----------------------------------------------------------------------------- execution with recording
_RECORD = None
_RECORD_ONLY = False
_PATCHED = False


def _patch():
    global _PATCHED
    if _PATCHED:
        return
    from alembic.operations.base import AbstractOperations
    orig = AbstractOperations.invoke

    def invoke(self, operation):
        if _RECORD is not None:
            _RECORD.append((self, operation))
            if _RECORD_ONLY:
                return None
        return orig(self, operation)
    AbstractOperations.invoke = invoke
    _PATCHED = True


def _scan(txt, i):
    """index just past the quoted token starting at txt[i] (a string literal or a quoted identifier)"""
    q = txt[i]
    close = {"'": "'", '"': '"', "`": "`", "[": "]"}[q]
    j = i + 1
    while j < len(txt):
        if txt[j] == close:
            if j + 1 < len(txt) and txt[j + 1] == close and close != "]":
                j += 2
                continue
            return j + 1
        j += 1
    return len(txt)


def norm_sql(txt):
    """whitespace-normalise; inside CREATE TABLE (...) sort the top-level clauses (the renderer emits the
    constraints in the order of their rendered texts, the table object in declaration order)"""
    txt = re.sub(r"\s+", " ", txt).strip()
    out, i = [], 0
    while True:
        # the words between CREATE and TABLE are table prefixes: never a token of another statement (an earlier CREATE INDEX
        # ... (expr) ; ALTER TABLE must not be taken for the start), so no parenthesis and no statement separator in them
        m = re.compile(r"CREATE (?:[^\s;/()]+ )*?TABLE ").search(txt, i)
        if not m:
            out.append(txt[i:])
            break
        j = m.end()
        while j < len(txt) and txt[j] != "(":          # the table name, possibly quoted
            j = _scan(txt, j) if txt[j] in "'\"`[" else j + 1
        if j >= len(txt):
            out.append(txt[i:])
            break
        out.append(txt[i:j + 1])
        k, depth, parts, cur = j + 1, 0, [], ""
        while k < len(txt):
            ch = txt[k]
            if ch in "'\"`[":
                e = _scan(txt, k)
                cur += txt[k:e]
                k = e
                continue
            if ch == "(":
                depth += 1
            elif ch == ")":
                if depth == 0:
                    break
                depth -= 1
            if ch == "," and depth == 0:
                parts.append(cur.strip())
                cur = ""
            else:
                cur += ch
            k += 1
        parts.append(cur.strip())
        out.append(", ".join(sorted(parts)))
        i = k
        m2 = re.compile(r"\)((?:[A-Z_]+=\w+ ?)+);").match(txt, i)        # MySQL table options: order is irrelevant
        if m2:
            out.append(")" + " ".join(sorted(m2.group(1).split())) + ";")
            i = m2.end()
    return "".join(out)


def sql_of(dialect, fn, nc):
    """run fn(operations) in as_sql mode; returns ('ok', normalised sql) or ('exc', class name)"""
    import sqlalchemy as sa
    from alembic.operations import Operations
    from alembic.runtime.migration import MigrationContext
    buf = io.StringIO()
    opts = {"as_sql": True, "output_buffer": buf}
    if nc:
        opts["target_metadata"] = sa.MetaData(naming_convention=nc_of(nc))
    ctx = MigrationContext.configure(dialect_name=dialect, opts=opts)
    try:
        with warnings.catch_warnings():
            warnings.simplefilter("ignore")
            with Operations.context(ctx) as o:
                fn(o)
    except Exception as e:   # the class is the observable
        return ("exc", type(e).__name__)
    return ("ok", norm_sql(buf.getvalue()))


def exec_env(cfg, import_lines=()):
    """the namespace of a generated revision file as far as the rendered body can see it: the two configured module names
    and what the collected import lines bind -- nothing else (a dialect module that is used without having been imported
    is a NameError here exactly as in the file)"""
    import sqlalchemy as sa
    from alembic import op as opmod
    g = {}
    for line in import_lines:
        exec(line, g)
    g[cfg["sa"]] = sa
    g[cfg["op"]] = opmod
    return g


def import_names(import_lines):
    """the observable form of autogen_context.imports: the dialect name of a  from sqlalchemy.dialects import <d>  line,
    any other line as itself"""
    out = []
    for line in import_lines:
        m = re.fullmatch(r"from sqlalchemy\.dialects import (\w+)", line)
        out.append(m.group(1) if m else line)
    return sorted(set(out))


def invoke_direct(o, container_ops, batch):
    """what Operations.invoke does with the operation objects themselves (ModifyTableOps members one by one;
    in batch mode through batch_alter_table as the autogenerate user would write it by hand)"""
    from alembic.operations import ops
    for x in container_ops:
        if isinstance(x, ops.ModifyTableOps):
            if batch:
                if x.ops:
                    with o.batch_alter_table(x.table_name, schema=x.schema) as bop:
                        for m in x.ops:
                            bop.invoke(m)
            else:
                for m in x.ops:
                    o.invoke(m)
        else:
            o.invoke(x)


def render_with_imports(real_ops, cfg, dialect=None):
    """(upgrade body, import lines) the way the revision command produces them: render._render_python_into_templatevars
    over a MigrationScript, under an AutogenContext with the configured prefixes.  dialect None: the DefaultDialect context
    that render_python_code uses; otherwise a migration context of that dialect (what env.py gives autogenerate)."""
    from alembic.autogenerate.api import AutogenContext
    from alembic.autogenerate import render
    from alembic.operations import ops
    from alembic.runtime.migration import MigrationContext
    from sqlalchemy.engine.default import DefaultDialect
    if dialect is None:
        mc = MigrationContext.configure(dialect=DefaultDialect())
    else:
        mc = MigrationContext.configure(dialect_name=dialect)
    opts = {"sqlalchemy_module_prefix": cfg["sa"] + ".", "alembic_module_prefix": cfg["op"] + ".", "render_item": None,
            "render_as_batch": cfg["batch"], "user_module_prefix": None}
    ac = AutogenContext(mc, opts=opts)
    script = ops.MigrationScript("verif", ops.UpgradeOps(ops=list(real_ops)), ops.DowngradeOps(ops=[]))
    targs = {}
    render._render_python_into_templatevars(ac, script, targs)
    return targs["upgrades"], [l for l in str(targs["imports"]).split("\n") if l]


def render_for(real_ops, cfg, dialect=None):
    return render_with_imports(real_ops, cfg, dialect)[0]


def run_both(code, cfg, real_ops, nc, dialects=DIALECTS, per_dialect_render=False, imports=()):
    """returns (captured operation objects of the first dialect or None, sql_same, details).
    per_dialect_render: render with a migration context of the target dialect (as autogenerate does)"""
    global _RECORD, _RECORD_ONLY
    _patch()
    same = True
    details = {}
    # the operation objects the text creates: one dialect-independent run in which invoke only records
    captured = []
    g0 = exec_env(cfg, imports)

    def record(o):
        global _RECORD, _RECORD_ONLY
        _RECORD, _RECORD_ONLY = captured, True
        try:
            exec("def f():\n" + code + "\nf()", g0)
        finally:
            _RECORD, _RECORD_ONLY = None, False
    if sql_of("postgresql", record, nc)[0] != "ok":
        captured = None
    for dn in dialects:
        if cfg["batch"] and dn == "sqlite":
            continue        # batch on sqlite recreates the table and needs a live reflected table: not an as_sql run
        direct = sql_of(dn, lambda o: invoke_direct(o, real_ops, cfg["batch"]), nc)
        rec = []
        the_code, the_imports = code, imports
        if per_dialect_render:
            try:
                with warnings.catch_warnings():
                    warnings.simplefilter("ignore")
                    the_code, the_imports = render_with_imports(real_ops, cfg, dn)
            except Exception as e:
                the_code, the_imports = "raise RuntimeError('render failed: %s')" % type(e).__name__, ()
        g = exec_env(cfg, the_imports)

        def run(o):
            global _RECORD
            _RECORD = rec
            try:
                exec("def f():\n" + the_code + "\nf()", g)
            finally:
                _RECORD = None
        via = sql_of(dn, run, nc)
        # both refuse loudly with the same class of error: no DDL on either path (a NameError of the rendered text where
        # the operation objects fail to compile is a difference)
        if direct != via:
            same = False
            details[dn] = {"direct": direct[1][:400], "rendered": via[1][:400]}
    return captured, same, details


def regroup(captured, cfg):
    """recorded (operations class, op) pairs -> abstract top-level ops.  Consecutive operations recorded through a
    BatchOperations object form one ModifyTableOps-like group (one per with-block in the rendered code)."""
    out = []
    prev = None
    for opsobj, op in captured:
        cls = type(opsobj).__name__
        same_block = opsobj is prev
        prev = opsobj
        if cls == "BatchOperations":
            tn, sc = tbl_of(op)
            if same_block and out and out[-1]["k"] == "modify" and out[-1].get("_open"):
                out[-1]["ops"].append({"table": tn, "schema": sc, "op": a_tblop(op)})
            else:
                out.append({"k": "modify", "table": tn, "schema": sc, "ops": [{"table": tn, "schema": sc, "op": a_tblop(op)}],
                            "_open": True})
        else:
            if out and out[-1].get("_open"):
                out[-1]["_open"] = False
            out.append(canon_abs(a_top(op)))
    for o in out:
        o.pop("_open", None)
    return out
