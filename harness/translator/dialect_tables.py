"""Fail-closed `ast` translator: /repo/alembic/ddl/{impl,mssql,mysql,oracle,postgresql,sqlite}.py -> coq/Gen/DialectTables.v

Per DefaultImpl subclass it copies the *literal* class attributes `__dialect__`, `transactional_ddl`,
`command_terminator`, `batch_separator` and abstracts the bodies of `emit_begin` / `emit_commit` / `_exec`
into the constructors of coq/Model/C18Dialect.v (`AStatic`, `AExec`, `ASuper`, `ASepIfSql`).  Nothing is resolved
here: inheritance, `super()` and string concatenation are interpreted by the Coq side.

Anything outside the recognised shapes raises TranslatorError (the C18 check then reports a broken tie).
"""
from __future__ import annotations

import ast
import fcntl
import os

FILES = ["impl", "mssql", "mysql", "oracle", "postgresql", "sqlite"]
ATTRS = ("__dialect__", "transactional_ddl", "command_terminator", "batch_separator")
METHODS = ("emit_begin", "emit_commit", "_exec", "static_output", "start_migrations")
ROOT = "DefaultImpl"


class TranslatorError(Exception):
    pass


def _dump(node):
    return ast.dump(node, annotate_fields=False, include_attributes=False)


def _stmt(src):
    return ast.parse(src).body[0]


SEP_IF = _dump(_stmt("if self.as_sql and self.batch_separator:\n    self.static_output(self.batch_separator)"))
ROOT_STATIC_OUTPUT = [_dump(_stmt(s)) for s in (
    "assert self.output_buffer is not None", 'self.output_buffer.write(text + "\\n\\n")', "self.output_buffer.flush()")]
ROOT_TDDL_OVERRIDE = _dump(_stmt("if transactional_ddl is not None:\n    self.transactional_ddl = transactional_ddl"))
EXEC_HEAD = _dump(_stmt("result = super()._exec(construct, *args, **kw)"))
EXEC_TAIL = _dump(_stmt("return result"))
SUPER_INIT = _dump(_stmt("super().__init__(*arg, **kw)"))


def _strip_doc(body):
    if body and isinstance(body[0], ast.Expr) and isinstance(body[0].value, ast.Constant) and isinstance(body[0].value.value, str):
        return body[1:]
    return body


def _is_self_attr(node, name):
    return isinstance(node, ast.Attribute) and isinstance(node.value, ast.Name) and node.value.id == "self" and node.attr == name


SEP_TEST = _dump(_stmt("if self.as_sql and self.batch_separator:\n    pass").test)
SEP_OUT = _dump(_stmt("self.static_output(self.batch_separator)"))


def _emit_actions(stmt, meth, where):
    """one statement of an emit_xxx body -> list of actions"""
    if _dump(stmt) == SEP_IF:
        return [("ASepIfSql",)]
    if isinstance(stmt, ast.If) and _dump(stmt.test) == SEP_TEST and not stmt.orelse:
        # `if self.as_sql and self.batch_separator:` around recognised statements
        out = []
        for inner in stmt.body:
            if _dump(inner) == SEP_OUT:
                out.append(("ASepIfSql",))
            else:
                a = _emit_action(inner, meth, where)
                if a[0] == "ASepIfSql":
                    raise TranslatorError("%s.%s: nested separator guard" % (where, meth))
                out.append(("AG" + a[0][1:],) + a[1:])
        return out
    return [_emit_action(stmt, meth, where)]


def _emit_action(stmt, meth, where):
    if _dump(stmt) == SEP_IF:
        return ("ASepIfSql",)
    if isinstance(stmt, ast.Expr) and isinstance(stmt.value, ast.Call):
        call = stmt.value
        f = call.func
        if not call.keywords and len(call.args) == 1 and _is_self_attr(f, "static_output"):
            a = call.args[0]
            if (isinstance(a, ast.BinOp) and isinstance(a.op, ast.Add) and isinstance(a.left, ast.Constant)
                    and isinstance(a.left.value, str) and _is_self_attr(a.right, "command_terminator")):
                return ("AStatic", a.left.value)
        if not call.keywords and len(call.args) == 1 and _is_self_attr(f, "_exec"):
            a = call.args[0]
            if isinstance(a, ast.Constant) and isinstance(a.value, str):
                return ("AExec", a.value)
        if _dump(stmt) == _dump(_stmt("super().%s()" % meth)):
            return ("ASuper",)
    raise TranslatorError("%s.%s: statement outside the four recognised shapes: %s" % (where, meth, ast.unparse(stmt)))


def _assigned_self_attrs(fn):
    out = []
    for n in ast.walk(fn):
        targets = []
        if isinstance(n, ast.Assign):
            targets = n.targets
        elif isinstance(n, (ast.AugAssign, ast.AnnAssign)):
            targets = [n.target]
        for t in targets:
            for a in ast.walk(t):
                if isinstance(a, ast.Attribute) and isinstance(a.value, ast.Name) and a.value.id == "self":
                    out.append((a.attr, n))
    return out


def _class(cd, modname):
    where = "%s.%s" % (modname, cd.name)
    rec = {"name": cd.name, "module": modname, "bases": [], "attrs": {}, "begin": None, "commit": None, "exec_sep": None,
           "sep_opt": None}
    for b in cd.bases:
        if isinstance(b, ast.Name):
            rec["bases"].append(b.id)
        else:
            raise TranslatorError("%s: base class is not a plain name" % where)
    for node in cd.body:
        if isinstance(node, (ast.Assign, ast.AnnAssign)):
            targets = node.targets if isinstance(node, ast.Assign) else [node.target]
            for t in targets:
                if isinstance(t, ast.Name) and t.id in ATTRS:
                    v = node.value
                    if not (isinstance(v, ast.Constant) and isinstance(v.value, (str, bool))):
                        raise TranslatorError("%s.%s is not a literal" % (where, t.id))
                    want = bool if t.id == "transactional_ddl" else str
                    if type(v.value) is not want:
                        raise TranslatorError("%s.%s has an unexpected literal type" % (where, t.id))
                    if t.id in rec["attrs"]:
                        raise TranslatorError("%s.%s assigned twice" % (where, t.id))
                    rec["attrs"][t.id] = v.value
        elif isinstance(node, (ast.FunctionDef, ast.AsyncFunctionDef)):
            if node.decorator_list and node.name in METHODS:
                raise TranslatorError("%s.%s is decorated" % (where, node.name))
            body = _strip_doc(node.body)
            if node.name in ("emit_begin", "emit_commit"):
                acts = [a for s in body for a in _emit_actions(s, node.name, where)]
                if not acts:
                    raise TranslatorError("%s.%s has an empty body" % (where, node.name))
                rec["begin" if node.name == "emit_begin" else "commit"] = acts
            elif node.name == "_exec":
                if cd.name == ROOT:
                    # the root _exec: its as_sql branch must hand exactly one chunk `<text> + self.command_terminator`
                    # to static_output and return
                    calls = [c for c in ast.walk(node) if isinstance(c, ast.Call) and _is_self_attr(c.func, "static_output")]
                    ok = (len(calls) == 1 and len(calls[0].args) == 1 and isinstance(calls[0].args[0], ast.BinOp)
                          and isinstance(calls[0].args[0].op, ast.Add)
                          and _is_self_attr(calls[0].args[0].right, "command_terminator"))
                    if not ok:
                        raise TranslatorError("%s._exec: as_sql branch not of the shape static_output(<sql> + self.command_terminator)" % where)
                    rec["exec_sep"] = False
                else:
                    d = [_dump(s) for s in body]
                    if d != [EXEC_HEAD, SEP_IF, EXEC_TAIL]:
                        raise TranslatorError("%s._exec is not `super()._exec(...)` + separator tail" % where)
                    rec["exec_sep"] = True
            elif node.name == "static_output":
                if cd.name != ROOT or [_dump(s) for s in body] != ROOT_STATIC_OUTPUT:
                    raise TranslatorError("%s.static_output: unexpected override or body" % where)
                rec["static_output"] = True
            elif node.name == "start_migrations":
                if body:
                    raise TranslatorError("%s.start_migrations is not a no-op" % where)
            # no other method may assign the translated attributes
            for attr, n in _assigned_self_attrs(node):
                if attr in ("transactional_ddl", "command_terminator", "batch_separator", "as_sql", "output_buffer"):
                    if node.name == "__init__" and cd.name == ROOT and attr in ("as_sql", "output_buffer"):
                        continue
                    if node.name == "__init__" and cd.name == ROOT and attr == "transactional_ddl":
                        if ROOT_TDDL_OVERRIDE in [_dump(s) for s in node.body]:
                            continue
                    if node.name == "__init__" and cd.name != ROOT and attr == "batch_separator":
                        # self.batch_separator = self.context_opts.get("<dialect>_batch_separator", self.batch_separator)
                        v = n.value if isinstance(n, ast.Assign) else None
                        if (isinstance(v, ast.Call) and isinstance(v.func, ast.Attribute) and v.func.attr == "get"
                                and _is_self_attr(v.func.value, "context_opts") and len(v.args) == 2
                                and isinstance(v.args[0], ast.Constant) and _is_self_attr(v.args[1], "batch_separator")
                                and _dump(_strip_doc(node.body)[0]) == SUPER_INIT
                                and isinstance(v.args[0].value, str)):
                            rec["sep_opt"] = v.args[0].value
                            continue
                    raise TranslatorError("%s.%s assigns self.%s in an unrecognised way" % (where, node.name, attr))
    return rec


def tables(repo):
    """list of class records, root first, in file order; raises TranslatorError"""
    recs = []
    for mod in FILES:
        path = os.path.join(repo, "alembic", "ddl", mod + ".py")
        if not os.path.exists(path):
            raise TranslatorError("missing " + path)
        tree = ast.parse(open(path).read(), path)
        for node in tree.body:
            if isinstance(node, ast.ClassDef):
                recs.append(_class_lazy(node, mod))
    # keep DefaultImpl and its transitive subclasses
    keep = {ROOT}
    changed = True
    while changed:
        changed = False
        for cd, mod in recs:
            names = [b.id for b in cd.bases if isinstance(b, ast.Name)]
            if cd.name not in keep and any(n in keep for n in names):
                keep.add(cd.name)
                changed = True
    out = []
    for cd, mod in recs:
        if cd.name in keep:
            out.append(_class(cd, mod))
    names = [r["name"] for r in out]
    if len(set(names)) != len(names):
        raise TranslatorError("duplicate impl class name")
    if not out or out[0]["name"] != ROOT:
        raise TranslatorError("DefaultImpl not found first in ddl/impl.py")
    root = out[0]
    for a in ("__dialect__", "transactional_ddl", "command_terminator"):
        if a not in root["attrs"]:
            raise TranslatorError("DefaultImpl.%s missing" % a)
    if root["begin"] is None or root["commit"] is None or root["exec_sep"] is not False or not root.get("static_output"):
        raise TranslatorError("DefaultImpl lacks emit_begin/emit_commit/_exec/static_output")
    if root["bases"]:
        raise TranslatorError("DefaultImpl has a base class")
    for i, r in enumerate(out):
        r["id"] = i
        if r["name"] == ROOT:
            r["parent"] = None
            continue
        if len(r["bases"]) != 1 or r["bases"][0] not in names:
            raise TranslatorError("%s: expected exactly one base among the impl classes" % r["name"])
        r["parent"] = names.index(r["bases"][0])
        if r["parent"] >= i:
            raise TranslatorError("%s is defined before its base" % r["name"])
        if "__dialect__" not in r["attrs"]:
            raise TranslatorError("%s has no __dialect__" % r["name"])
    return out


def _class_lazy(node, mod):
    return (node, mod)


def _s(s):
    return "[" + "; ".join(str(ord(c)) for c in s) + "]"


def _opt(v, f):
    return "None" if v is None else "(Some %s)" % f(v)


def _act(a):
    if a[0] in ("AStatic", "AExec", "AGStatic", "AGExec"):
        return "%s %s (* %r *)" % (a[0], _s(a[1]), a[1])
    return a[0]


def render(recs):
    lines = ["(* GENERATED by harness/translator/dialect_tables.py from alembic/ddl/{%s}.py of the tree under test." % ",".join(FILES),
             "   Do not edit: it is rewritten (only when its content changes) on every ./check C18 run. *)",
             "From AV Require Import Base.ListSet Model.C18Dialect.",
             "Local Open Scope N_scope.",
             "Definition classes : list klass := ["]
    items = []
    for r in recs:
        a = r["attrs"]
        items.append(
            "  (* %s.%s, __dialect__ = %r *)\n"
            "  mkKlass %d %s %s\n"
            "    %s (* transactional_ddl *)\n"
            "    %s (* command_terminator %r *)\n"
            "    %s (* batch_separator %r *)\n"
            "    %s (* option %r *)\n"
            "    %s (* _exec *)\n"
            "    %s\n"
            "    %s" % (
                r["module"], r["name"], a.get("__dialect__"),
                r["id"], _opt(r["parent"], str), _s(a.get("__dialect__", "")),
                _opt(a.get("transactional_ddl"), lambda b: "true" if b else "false"),
                _opt(a.get("command_terminator"), _s), a.get("command_terminator"),
                _opt(a.get("batch_separator"), _s), a.get("batch_separator"),
                ("(Some false)" if r["parent"] is None else _opt(True if r["sep_opt"] else None, lambda b: "true")), r["sep_opt"],
                _opt(r["exec_sep"], lambda b: "true" if b else "false"),
                _opt(r["begin"], lambda acts: "[" + "; ".join(_act(x) for x in acts) + "]"),
                _opt(r["commit"], lambda acts: "[" + "; ".join(_act(x) for x in acts) + "]")))
    lines.append(";\n".join(items))
    lines.append("].")
    lines.append("Definition nclasses : nat := %d%%nat." % len(recs))
    lines.append("Definition dialects : list (option dialect) := resolve_all classes.")
    lines.append("Definition dget (i:nat) : dialect := dialect_of classes i.")
    lines.append("Definition dget_sep (i:nat) (s:list N) : dialect := dialect_of_sep classes i (Some s).")
    return "\n".join(lines) + "\n"


def regenerate(repo, coqdir):
    """rewrite coq/Gen/DialectTables.v if (and only if) its content changed; returns (records, changed)"""
    recs = tables(repo)
    txt = render(recs)
    os.makedirs(os.path.join(coqdir, "Gen"), exist_ok=True)
    path = os.path.join(coqdir, "Gen", "DialectTables.v")
    with open(os.path.join(coqdir, ".lock"), "w") as lk:
        fcntl.flock(lk, fcntl.LOCK_EX)
        try:
            old = open(path).read() if os.path.exists(path) else None
            if old != txt:
                tmp = path + ".tmp%d" % os.getpid()
                open(tmp, "w").write(txt)
                os.replace(tmp, path)
            return recs, old != txt
        finally:
            fcntl.flock(lk, fcntl.LOCK_UN)


if __name__ == "__main__":
    import sys
    print(render(tables(sys.argv[1] if len(sys.argv) > 1 else "/repo")))
