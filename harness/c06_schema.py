"""Shared by the C06 / C07 / C20 plugins: abstract schemas <-> SQLAlchemy MetaData / SQLite, abstraction of
alembic operation objects and of reflected tables, encoders into Coq terms, schema generators.

Abstract schema (JSON-able, mirrors coq/Model/Schema.v):
  schema = [table];  table = {"name": int, "cols": [[name, fam, [args], nullable, pk, dflt, nullable_set]],
                              "cons": [["uq", name, [cols]] | ["ix", name, [cols], unique]], "fks": [[name, [cols], rtable, [rcols], [onupdate, ondelete, deferrable, initially], named]]}
  (named False: the key is declared without a name; `name` is then only a handle)
  dflt = None | ["lit", str] (server_default='...') | ["expr", str] (server_default=text('...'))
         | ["comp", str, persisted] (Computed(str, persisted=None|True|False): a generated column)
  nullable_set False: nullable= is not passed (Column._user_defined_nullable stays NULL_UNSPECIFIED); default True
Names are small integers; in SQL they are spelled t<n> / c<n> / k<n> (constraints, indexes) / f<n> (foreign keys).
"""
import re
import warnings
import logging

from harness import coqfmt as cf

# ----------------------------------------------------------------------------- type catalogue
FAMS = ["INTEGER", "BIGINT", "SMALLINT", "VARCHAR", "TEXT", "NUMERIC", "DECIMAL", "FLOAT", "BOOLEAN", "DATE",
        "DATETIME", "BLOB"]
FAM_CODE = {n: i for i, n in enumerate(FAMS)}
# (fam, args) pairs the generators draw from
TYPE_CATALOGUE = [(0, []), (1, []), (2, []), (3, []), (3, [20]), (3, [50]), (4, []), (5, []), (5, [10]), (5, [10, 2]),
                  (5, [12, 4]), (5, [10, 4]), (6, [10, 2]), (6, [10, 4]), (6, [8]), (7, []), (8, []), (9, []), (10, []), (11, [])]


def sa_type(fam, args):
    import sqlalchemy as sa
    n = FAMS[fam]
    if n == "INTEGER": return sa.Integer()
    if n == "BIGINT": return sa.BigInteger()
    if n == "SMALLINT": return sa.SmallInteger()
    if n == "VARCHAR": return sa.String(*args)
    if n == "TEXT": return sa.Text()
    if n == "NUMERIC": return sa.Numeric(*args)
    if n == "DECIMAL": return sa.DECIMAL(*args)
    if n == "FLOAT": return sa.Float()
    if n == "BOOLEAN": return sa.Boolean()
    if n == "DATE": return sa.Date()
    if n == "DATETIME": return sa.DateTime()
    if n == "BLOB": return sa.LargeBinary()
    raise AssertionError(n)


# a collation is decoration (kept out of the Coq encoding): SQLite does not reflect it and the comparison must not see it
_TYPE_RE = re.compile(r"^([A-Z]+)(?:\((\d+(?:, ?\d+)*)\))?(?: COLLATE \"NOCASE\")?$")


def abs_type(type_obj, dialect):
    """(fam, args) of what the dialect's type compiler prints for the type; fails loudly outside the catalogue"""
    txt = dialect.type_compiler.process(type_obj)
    m = _TYPE_RE.match(txt)
    if not m or m.group(1) not in FAM_CODE:
        raise AssertionError("type outside the catalogue: %r" % txt)
    args = [int(x) for x in m.group(2).split(",")] if m.group(2) else []
    return [FAM_CODE[m.group(1)], args]


VT_LOCAL = 99                                 # local name 99 in an ATTACHED schema is spelled like alembic's version table
def tn(n): return "alembic_version" if (n >= 100 and n % 100 == VT_LOCAL) else "t%d" % (n % 100)   # table code = 100 * schema + local name (schema 0: the default schema)
def sch(n): return None if n < 100 else "s%d" % (n // 100)


def tcode(name, schema=None):
    if name == "alembic_version" and schema:
        return VT_LOCAL + 100 * un(schema, "s")
    return un(name, "t") + (0 if not schema else 100 * un(schema, "s"))


def tkey(n): return tn(n) if n < 100 else "%s.%s" % (sch(n), tn(n))
def cn(n): return "c%d" % n
def kn(n): return "k%d" % n
def fn(n): return "f%d" % n


def fk_opts(f):
    return list(f[4]) if len(f) > 4 else [None, None, None, None]


def fk_named(f):
    return bool(f[5]) if len(f) > 5 else True


def col_null_set(c):
    return bool(c[6]) if len(c) > 6 else True


def sa_default(d):
    import sqlalchemy as sa
    if d is None: return None
    if d[0] == "comp": return sa.Computed(d[1], persisted=d[2])
    return d[1] if d[0] == "lit" else sa.text(d[1])


def abs_default(sd):
    """Column.server_default -> None | ["lit", s] | ["expr", s]"""
    import sqlalchemy as sa
    from sqlalchemy.sql.elements import TextClause
    if sd is None or sd is False: return None
    if isinstance(sd, sa.Computed):
        return ["comp", str(sd.sqltext.text if hasattr(sd.sqltext, "text") else sd.sqltext), sd.persisted]
    if not isinstance(sd, sa.DefaultClause): raise AssertionError("unexpected server default %r" % (sd,))
    if isinstance(sd.arg, str): return ["lit", sd.arg]
    if isinstance(sd.arg, TextClause): return ["expr", sd.arg.text]
    if isinstance(sd.arg, sa.sql.functions.now): return ["expr", "CURRENT_TIMESTAMP"]     # func.now(): what SQLite's compiler prints
    raise AssertionError("unexpected default argument %r" % (sd.arg,))


def un(s, prefix):
    if not (isinstance(s, str) and s.startswith(prefix) and s[1:].isdigit()):
        raise AssertionError("unexpected name %r (wanted %s<n>)" % (s, prefix))
    return int(s[1:])


# ----------------------------------------------------------------------------- MetaData
def build_metadata(schema):
    import sqlalchemy as sa
    md = sa.MetaData()
    for t in schema:
        args = []
        collate = (t.get("deco") or {}).get("collate", [])
        funcnow = (t.get("deco") or {}).get("funcnow", [])       # these CURRENT_TIMESTAMP defaults are spelled func.now()
        colflag = {u[1][0] for u in t.get("uuqs", []) if len(u) > 2 and u[2] and len(u[1]) == 1}
        for c in t["cols"]:
            n, fam, a, nl, pk, d = c[:6]
            kw = {"nullable": bool(nl)} if col_null_set(c) else {}
            if n in colflag: kw["unique"] = True
            ty = sa_type(fam, a)
            if n in collate and FAMS[fam] in ("VARCHAR", "TEXT"):      # decoration: a string column with a collation
                ty = sa.String(*a, collation="NOCASE") if FAMS[fam] == "VARCHAR" else sa.Text(collation="NOCASE")
            if d is not None and d[0] == "comp":
                args.append(sa.Column(cn(n), ty, sa_default(d), primary_key=bool(pk), **kw))
            else:
                sd = sa.func.now() if (n in funcnow and d is not None and list(d) == ["expr", "CURRENT_TIMESTAMP"]) else sa_default(d)
                args.append(sa.Column(cn(n), ty, primary_key=bool(pk), server_default=sd, **kw))
        for k in t["cons"]:
            if k[0] == "uq":
                args.append(sa.UniqueConstraint(*[cn(c) for c in k[2]], name=kn(k[1])))
            else:
                args.append(sa.Index(kn(k[1]), *[cn(c) for c in k[2]], unique=bool(k[3])))
        # objects OUTSIDE the model that autogenerate does not look at on SQLite (the model never sees them; the comparison
        # must be unaffected): named CHECK constraints, expression indexes (func / text)
        deco = t.get("deco") or {}
        for name, sqltext in deco.get("checks", []):
            args.append(sa.CheckConstraint(sqltext, name="ck%d" % name))
        for name, kind, c in deco.get("eixs", []):
            expr = sa.func.lower(sa.column(cn(c))) if kind == "func" else sa.text("%s || 'x'" % cn(c))
            args.append(sa.Index("e%d" % name, expr))
        for u in t.get("uuqs", []):          # unnamed unique constraints: [handle, [cols]] (+ True: spelled Column(unique=True))
            if len(u) > 2 and u[2] and len(u[1]) == 1: continue
            args.append(sa.UniqueConstraint(*[cn(c) for c in u[1]]))
        for f in t.get("fks", []):
            o = fk_opts(f)
            args.append(sa.ForeignKeyConstraint([cn(c) for c in f[1]], ["%s.%s" % (tkey(f[2]), cn(c)) for c in f[3]], name=fn(f[0]) if fk_named(f) else None,
                                                onupdate=o[0], ondelete=o[1], deferrable=o[2], initially=o[3]))
        sa.Table(tn(t["name"]), md, *args, schema=sch(t["name"]))
    return md


def quiet_logs():
    warnings.simplefilter("ignore")
    logging.disable(logging.CRITICAL)


# ----------------------------------------------------------------------------- abstraction
def col_user_nullable(col):
    from sqlalchemy.sql import schema as sch
    return col._user_defined_nullable is not sch.NULL_UNSPECIFIED


def abs_column(col, dialect):
    return [un(col.name, "c"), abs_type(col.type, dialect)[0], abs_type(col.type, dialect)[1], bool(col.nullable),
            bool(col.primary_key), abs_default(col.server_default), col_user_nullable(col)]


def abs_reflected(conn):
    """the database as alembic's comparison sees it: reflect_table with the impl's column_reflect hook,
    inspector.get_unique_constraints, inspector.get_indexes"""
    import sqlalchemy as sa
    from sqlalchemy import event
    from alembic.ddl.impl import DefaultImpl
    insp = sa.inspect(conn)
    impl = DefaultImpl.get_by_dialect(conn.dialect)(conn.dialect, conn, False, None, None, {})
    out = []
    for name in sorted(insp.get_table_names()):
        md = sa.MetaData()
        t = sa.Table(name, md)
        event.listen(t, "column_reflect", impl._compat_autogen_column_reflect(insp))
        insp.reflect_table(t, include_columns=None)
        cols = [abs_column(c, conn.dialect) for c in t.c]
        cons = []
        uuqs = []
        for uq in insp.get_unique_constraints(name):
            if uq["name"] is None:
                uuqs.append([0, [un(c, "c") for c in uq["column_names"]]])
            else:
                cons.append(["uq", un(uq["name"], "k"), [un(c, "c") for c in uq["column_names"]]])
        for ix in insp.get_indexes(name):
            if any(c is None for c in ix["column_names"]):
                raise AssertionError("expression index")
            cons.append(["ix", un(ix["name"], "k"), [un(c, "c") for c in ix["column_names"]], bool(ix["unique"])])
        fks = []
        for f in insp.get_foreign_keys(name):
            o = dict(f.get("options") or {})
            if f.get("referred_schema") or set(o) - {"onupdate", "ondelete", "deferrable", "initially"}:
                raise AssertionError("unexpected foreign key schema / options %r" % (o,))
            fks.append([0 if f["name"] is None else un(f["name"], "f"), [un(c, "c") for c in f["constrained_columns"]], un(f["referred_table"], "t"),
                        [un(c, "c") for c in f["referred_columns"]],
                        [o.get("onupdate"), o.get("ondelete"), o.get("deferrable"), o.get("initially")], f["name"] is not None])
        if insp.get_check_constraints(name):
            raise AssertionError("unexpected constraint")
        out.append({"name": un(name, "t"), "cols": cols, "cons": cons, "fks": fks, "uuqs": uuqs})
    return out


def canon_existing_default(sd):
    """AlterColumnOp.existing_server_default is the reflected default of the comparison's conn table.  That table has gone
    through SQLiteImpl.autogen_column_reflect only if it was reflected by _compare_tables itself; a table pulled in earlier as
    the referred table of another table's foreign key (the order is a set iteration order) carries the raw text.  The two
    forms normalise identically in compare_server_default; the observable is canonicalised to the listener's form."""
    from alembic.ddl.sqlite import SQLiteImpl
    d = abs_default(sd)
    if d is not None and SQLiteImpl._guess_if_default_is_unparenthesized_sql_expr(None, d[1]):
        d = [d[0], "(%s)" % d[1]]
    return d


def _fk_specs(el):
    """[(table code, column)] of the referred columns; the target may be schema-qualified (schema.table.column)"""
    specs = [e._get_colspec().split(".") for e in el.elements]
    if any(len(sp) not in (2, 3) for sp in specs) or len({tuple(sp[:-1]) for sp in specs}) != 1:
        raise AssertionError("unexpected foreign key target %r" % (specs,))
    return [(tcode(sp[-2], sp[0] if len(sp) == 3 else None), un(sp[-1], "c")) for sp in specs]


def abs_fk_of_constraint(el):
    specs = _fk_specs(el)
    return [0 if el.name is None else un(el.name, "f"), [un(k, "c") for k in el.column_keys], specs[0][0], [sp[1] for sp in specs],
            [el.onupdate, el.ondelete, el.deferrable, el.initially], el.name is not None]


def abs_fk_of_constraint_any(el):
    """like abs_fk_of_constraint, name may be anything (None for an unnamed reflected key)"""
    specs = _fk_specs(el)
    return [el.name, [un(k, "c") for k in el.column_keys], specs[0][0], [sp[1] for sp in specs]]


def _colnames(cols):
    return [un(c if isinstance(c, str) else c.name, "c") for c in cols]


def abs_ops(upgrade_ops, dialect, conn_schema=None, meta_schema=None):
    """alembic operation objects -> abstract ops (JSON-able lists); anything unknown fails loudly.
    An operation on an UNNAMED foreign key carries no name; its handle is recovered from the database schema (drops) or the
    metadata schema (adds) through the key's column signature (distinct within a table by the side condition)."""
    def handle(schema, t, cols, rt, rcols):
        for tb in schema or []:
            if tb["name"] == t:
                for f in tb["fks"]:
                    if not fk_named(f) and (f[1], f[2], f[3]) == (cols, rt, rcols):
                        return f[0]
        raise AssertionError("unnamed foreign key %r of table %r not found" % ((cols, rt, rcols), t))

    import sqlalchemy as sa
    from alembic.operations import ops as O
    out = []

    def one(op, table=None):
        if isinstance(op, O.ModifyTableOps):
            for o in op.ops:
                if (o.source_table if isinstance(o, O.CreateForeignKeyOp) else o.table_name) != op.table_name:
                    raise AssertionError("op of another table inside ModifyTableOps")
                one(o)
        elif isinstance(op, O.CreateTableOp):
            cols, uqs, fks, uuqs = [], [], [], []
            for el in op.columns:
                if isinstance(el, sa.Column):
                    cols.append(abs_column(el, dialect))
                elif isinstance(el, sa.UniqueConstraint):
                    if el.name is None:
                        uuqs.append([0, _colnames(list(el.columns))])
                    else:
                        uqs.append(["uq", un(el.name, "k"), _colnames(list(el.columns))])
                elif isinstance(el, sa.ForeignKeyConstraint):
                    f = abs_fk_of_constraint(el)
                    if not f[5]:
                        f[0] = handle(meta_schema, tcode(op.table_name, op.schema), f[1], f[2], f[3])
                    fks.append(f)
                elif isinstance(el, sa.CheckConstraint):
                    pass        # decoration: a CHECK travels inline with create_table, nothing else ever mentions it
                elif isinstance(el, sa.PrimaryKeyConstraint):
                    pkc = sorted(_colnames(list(el.columns)))
                    if pkc != sorted(c[0] for c in cols if c[4]):
                        raise AssertionError("primary key constraint does not match column flags")
                else:
                    raise AssertionError("unexpected element in CreateTableOp: %r" % (el,))
            out.append(["create_table", {"name": tcode(op.table_name, op.schema), "cols": cols, "cons": uqs, "fks": fks, "uuqs": uuqs}])
        elif isinstance(op, O.DropTableOp):
            out.append(["drop_table", tcode(op.table_name, op.schema)])
        elif isinstance(op, O.AddColumnOp):
            out.append(["add_column", tcode(op.table_name, op.schema), abs_column(op.column, dialect)])
        elif isinstance(op, O.DropColumnOp):
            out.append(["drop_column", tcode(op.table_name, op.schema), un(op.column_name, "c")])
        elif isinstance(op, O.AlterColumnOp):
            if op.modify_name is not None or op.modify_comment is not False:
                raise AssertionError("unexpected modification in AlterColumnOp")
            out.append(["alter_column", tcode(op.table_name, op.schema), un(op.column_name, "c"),
                        bool(op.existing_nullable), abs_type(op.existing_type, dialect), canon_existing_default(op.existing_server_default),
                        None if op.modify_nullable is None else bool(op.modify_nullable),
                        None if op.modify_type is None else abs_type(op.modify_type, dialect),
                        None if op.modify_server_default is False else [abs_default(op.modify_server_default)]])
        elif isinstance(op, O.CreateIndexOp):
            out.append(["add_cons", tcode(op.table_name, op.schema), ["ix", un(op.index_name, "k"), _colnames(op.columns), bool(op.unique)]])
        elif isinstance(op, O.DropIndexOp):
            out.append(["drop_cons", tcode(op.table_name, op.schema), True, un(op.index_name, "k")])
        elif isinstance(op, O.CreateUniqueConstraintOp) and op.constraint_name is None:
            out.append(["add_uuq", tcode(op.table_name, op.schema), [0, _colnames(op.columns)]])
        elif isinstance(op, O.CreateUniqueConstraintOp):
            out.append(["add_cons", tcode(op.table_name, op.schema), ["uq", un(op.constraint_name, "k"), _colnames(op.columns)]])
        elif isinstance(op, O.CreateForeignKeyOp):
            if op.kw.get("match"):
                raise AssertionError("unexpected foreign key match")
            lc, rt_, rc = [un(c, "c") for c in op.local_cols], tcode(op.referent_table, op.kw.get("referent_schema")), [un(c, "c") for c in op.remote_cols]
            out.append(["add_fk", tcode(op.source_table, op.kw.get("source_schema")), [handle(meta_schema, tcode(op.source_table, op.kw.get("source_schema")), lc, rt_, rc) if op.constraint_name is None else un(op.constraint_name, "f"), [un(c, "c") for c in op.local_cols],
                                                             rt_, [un(c, "c") for c in op.remote_cols],
                                                             [op.kw.get("onupdate"), op.kw.get("ondelete"), op.kw.get("deferrable"),
                                                              op.kw.get("initially")], op.constraint_name is not None]])
        elif isinstance(op, O.DropConstraintOp):
            if op.constraint_type == "foreignkey":
                if op.constraint_name is None:
                    f = abs_fk_of_constraint_any(op.to_constraint())
                    h = handle(conn_schema, tcode(op.table_name, op.schema), f[1], f[2], f[3])
                else:
                    h = un(op.constraint_name, "f")
                out.append(["drop_fk", tcode(op.table_name, op.schema), h, op.constraint_name is not None])
            elif op.constraint_type == "unique":
                out.append(["drop_cons", tcode(op.table_name, op.schema), False, un(op.constraint_name, "k")])
            else:
                raise AssertionError("drop of a %r constraint" % (op.constraint_type,))
        else:
            raise AssertionError("unexpected operation %r" % (op,))

    for o in upgrade_ops.ops:
        one(o)
    return out


# ----------------------------------------------------------------------------- running the real code
def compare(conn, md, cfg, include_object=None, include_name=None, batch=False, include_schemas=False):
    """produce_migrations against the connection (compare_metadata is this plus .as_diffs())"""
    from alembic.runtime.migration import MigrationContext
    from alembic.autogenerate import produce_migrations
    opts = {"compare_type": bool(cfg[0]), "compare_server_default": bool(cfg[1]), "target_metadata": md,
            "render_as_batch": batch}
    if include_schemas:
        opts["include_schemas"] = True
    if include_object is not None:
        opts["include_object"] = include_object
    if include_name is not None:
        opts["include_name"] = include_name
    ctx = MigrationContext.configure(conn, opts=opts)
    return ctx, produce_migrations(ctx, md)


def fresh_db(schema, attached=()):
    import sqlalchemy as sa
    from sqlalchemy import event
    e = sa.create_engine("sqlite://")
    if attached:
        @event.listens_for(e, "connect")
        def _attach(dbapi_conn, rec):
            for i in attached:
                dbapi_conn.execute("ATTACH DATABASE ':memory:' AS s%d" % i)
    build_metadata(schema).create_all(e)
    return e


_ROW_VALUE = {"INTEGER": "1", "BIGINT": "1", "SMALLINT": "1", "VARCHAR": "'a'", "TEXT": "'a'", "NUMERIC": "1", "DECIMAL": "1", "FLOAT": "1",
              "BOOLEAN": "1", "DATE": "'2020-01-01'", "DATETIME": "'2020-01-01 00:00:00'", "BLOB": "x'00'"}


def populate(conn, A, B):
    """one row in every table of A (every column non-NULL, so every constraint of A and every NOT NULL of B is satisfied) before an
    upgrade runs: "the upgrade runs" is meant on a database that holds data.  A table to which B adds a NOT NULL column without a
    usable default stays empty (no upgrade can fill that column; not alembic's business).  Returns the number of rows."""
    import sqlalchemy as sa
    tb = {t["name"]: t for t in B}
    n = 0
    for t in A:
        m = tb.get(t["name"])
        old = {c[0] for c in t["cols"]}
        if m is not None and any(c[0] not in old and not c[3] and (c[5] is None or list(c[5]) == ["expr", "NULL"]) for c in m["cols"]):
            continue
        cols = [c for c in t["cols"] if not (c[5] is not None and c[5][0] == "comp")]
        conn.execute(sa.text("INSERT INTO %s (%s) VALUES (%s)" % (tn(t["name"]), ", ".join(cn(c[0]) for c in cols),
                                                              ", ".join(_ROW_VALUE[FAMS[c[1]]] for c in cols))))
        n += 1
    conn.commit()
    return n


def run_upgrade(conn, ctx, upgrade_ops, batch):
    """render the upgrade as Python and execute it; returns None or the exception class name"""
    import sqlalchemy as sa
    from alembic.autogenerate import render_python_code
    from alembic.operations import Operations
    from alembic import op as opmod
    code = render_python_code(upgrade_ops, render_as_batch=batch, migration_context=ctx)     # as `alembic revision --autogenerate` does: with the dialect at hand
    src = "def _upgrade():\n" + code + "\n_upgrade()\n"
    try:
        with Operations.context(ctx):
            exec(compile(src, "<upgrade>", "exec"), {"op": opmod, "sa": sa})
        conn.commit()
        return None, code
    except Exception as e:       # whatever alembic / SQLAlchemy / SQLite raise is the observable "did not run"
        try:
            conn.rollback()
        except Exception:
            pass
        return type(e).__name__, code


ALL_CFGS = [(True, True), (True, False), (False, True), (False, False)]

# ----------------------------------------------------------------------------- Coq encoders
def q_ty(fam, args): return "(mkTy %d %s)" % (fam, cf.nlist(args))
def q_dflt(d):
    if d[0] == "comp": return "(DComputed %s %s)" % (cf.string(d[1]), cf.opt(d[2], cf.boolean))
    return "(%s %s)" % ("DLit" if d[0] == "lit" else "DExpr", cf.string(d[1]))
def q_col(c): return "(mkCol %d %s %s %s %s %s)" % (c[0], q_ty(c[1], c[2]), cf.boolean(c[3]), cf.boolean(c[4]), cf.opt(c[5], q_dflt),
                                                 cf.boolean(col_null_set(c)))
def q_fkopts(o):
    return "(mkFkOpts %s %s %s %s)" % (cf.opt(o[0], cf.string), cf.opt(o[1], cf.string), cf.opt(o[2], cf.boolean), cf.opt(o[3], cf.string))
def q_fk(f): return "(mkFk %d %s %d %s %s %s)" % (f[0], cf.nlist(f[1]), f[2], cf.nlist(f[3]), q_fkopts(fk_opts(f)), cf.boolean(fk_named(f)))


def q_cons(k):
    if k[0] == "uq":
        return "(Uq %d %s)" % (k[1], cf.nlist(k[2]))
    return "(Ix %d %s %s)" % (k[1], cf.nlist(k[2]), cf.boolean(k[3]))


def q_uuq(u): return "(mkUuq %d %s)" % (u[0], cf.nlist(u[1]))
def q_table(t): return "(mkTable %d %s %s %s %s)" % (t["name"], cf.lst(q_col(c) for c in t["cols"]), cf.lst(q_cons(k) for k in t["cons"]),
                                                    cf.lst(q_fk(f) for f in t.get("fks", [])), cf.lst(q_uuq(u) for u in t.get("uuqs", [])))
def q_schema(s): return cf.lst(q_table(t) for t in s)


def q_op(o):
    k = o[0]
    if k == "create_table": return "(OpCreateTable %s)" % q_table(o[1])
    if k == "drop_table": return "(OpDropTable %d)" % o[1]
    if k == "add_column": return "(OpAddColumn %d %s)" % (o[1], q_col(o[2]))
    if k == "drop_column": return "(OpDropColumn %d %d)" % (o[1], o[2])
    if k == "alter_column":
        return "(OpAlterColumn %d %d %s %s %s %s %s %s)" % (o[1], o[2], cf.boolean(o[3]), q_ty(*o[4]), cf.opt(o[5], q_dflt),
                                                          cf.opt(o[6], cf.boolean), cf.opt(o[7], lambda t: q_ty(*t)),
                                                          cf.opt(o[8], lambda d: cf.opt(d[0], q_dflt)))
    if k == "add_uuq": return "(OpAddUUq %d %s)" % (o[1], q_uuq(o[2]))
    if k == "add_fk": return "(OpAddFk %d %s)" % (o[1], q_fk(o[2]))
    if k == "drop_fk": return "(OpDropFk %d %d %s)" % (o[1], o[2], cf.boolean(o[3] if len(o) > 3 else True))
    if k == "add_cons": return "(OpAddCons %d %s)" % (o[1], q_cons(o[2]))
    if k == "drop_cons": return "(OpDropCons %d %s %d)" % (o[1], cf.boolean(o[2]), o[3])
    raise AssertionError(k)


def q_ops(ops): return cf.lst(q_op(o) for o in ops)
def q_cfg(c): return "(mkCfg %s %s)" % (cf.boolean(c[0]), cf.boolean(c[1]))


# ----------------------------------------------------------------------------- generators
def _sig(k): return frozenset(k[2])


# server defaults of the class the theorems cover (Schema.v dflt_ok)
DEFAULTS = [["lit", "5"], ["lit", "0"], ["lit", "abc"], ["lit", "x y"], ["lit", "1.5"], ["lit", "a-b, c"],
            ["expr", "1.5"], ["expr", "5"], ["expr", "0"], ["expr", "CURRENT_TIMESTAMP"], ["expr", "-1"], ["expr", "NULL"],
            ["expr", "1 + 2"], ["expr", "'q'"], ["expr", "'a b'"], ["expr", "'5'"], ["expr", "(1 + 2)"], ["expr", "(5)"],
            ["expr", "(CURRENT_DATE)"],
            ["expr", "('q')"], ["expr", "('a b')"]]    # a parenthesised text that begins and ends with a string literal (order of un-wrapping)
# string defaults on which the unchanged code reports a spurious difference (finding C06-sqlite-string-default-not-quiet)
BAD_DEFAULTS = [["lit", "(a)"], ["lit", ""], ["lit", "it's"], ["lit", "'q'"]]


def near_miss(rnd, d):
    """a default that differs from d only slightly: letter case, a surrounding blank, a trailing character (stays in dflt_ok)"""
    if d is None or d[0] == "comp": return None
    kind, txt = d
    inner, pre, post = txt, "", ""
    if kind == "expr" and len(txt) >= 3 and txt[0] == txt[-1] == "'":
        inner, pre, post = txt[1:-1], "'", "'"
    elif kind == "expr" and len(txt) >= 3 and txt[0] == "(" and txt[-1] == ")":
        inner, pre, post = txt[1:-1], "(", ")"
    quoted = kind == "lit" or pre == "'"
    choices = []
    if inner.swapcase() != inner: choices += [inner.swapcase(), inner.upper() if inner.upper() != inner else inner.lower()]
    if quoted:                          # inside a literal anything goes: a trailing character, surrounding blanks
        choices += [inner + "x", inner + "0", inner + " ", " " + inner]
    elif not choices:                   # a bare SQL expression must stay valid SQL: keywords only change case, numbers gain a digit
        choices += [inner + "0"]
    new = rnd.choice(choices)
    return [kind, pre + new + post]


def gen_default(rnd, p=0.35):
    return list(rnd.choice(DEFAULTS)) if rnd.random() < p else None


def gen_table(rnd, name, kbase):
    ncols = rnd.choice([0, 1, 2, 2, 3, 3, 4, 5])
    cols = [[0, 0, [], False, True, None]]
    for i in range(ncols):
        fam, args = rnd.choice(TYPE_CATALOGUE)
        nl = rnd.random() < 0.65
        cols.append([i + 1, fam, list(args), nl, False, gen_default(rnd), not (nl and rnd.random() < 0.2)])   # nullable= sometimes left unset
    t = {"name": name, "cols": cols, "cons": [], "fks": []}
    for j in range(rnd.choice([0, 0, 1, 1, 2, 3])):
        add_cons(rnd, t, kbase + j)
    return t


def add_cons(rnd, t, name, kind=None):
    names = [c[0] for c in t["cols"]]
    cs = rnd.sample(names, rnd.randint(1, min(2, len(names))))
    if any(_sig(k) == frozenset(cs) for k in t["cons"]) or any(k[1] == name for k in t["cons"]):
        return False
    kind = kind or rnd.choice(["uq", "ix", "ix"])
    t["cons"].append(["uq", name, cs] if kind == "uq" else ["ix", name, cs, rnd.random() < 0.3])
    return True


def _act(a):
    return None if (not a or a.lower() == "no action") else a.lower()


def _fsig(f):
    """mirrors _fk_constraint_sig._sig"""
    o = fk_opts(f)
    d3 = "initially_deferrable" if (o[3] and o[3].lower() == "deferred") else "deferrable" if o[2] else "not deferrable"
    return (tuple(f[1]), f[2], tuple(f[3]), _act(o[0]), _act(o[1]), d3)


def _fcols(f):
    """the column signature SQLite / SQLAlchemy reflection tells foreign keys apart by"""
    return (tuple(f[1]), f[2], tuple(f[3]))


ACTIONS = [None, None, None, "CASCADE", "cascade", "SET NULL", "Set Null", "RESTRICT", "NO ACTION", "no action", "set default"]
DEFERS = [(None, None), (None, None), (None, None), (True, None), (False, None), (True, "DEFERRED"), (True, "deferred"), (True, "Deferred"),
          (True, "IMMEDIATE"), (True, "immediate"), (False, "DEFERRED"), (False, "immediate")]


def gen_fk_opts(rnd, p=0.45):
    if rnd.random() >= p: return [None, None, None, None]
    d = rnd.choice(DEFERS)
    return [rnd.choice(ACTIONS), rnd.choice(ACTIONS), d[0], d[1]]


def add_fk(rnd, S, t, name):
    """a foreign key from t to a table of S with a name <= t's (no cycles between tables; self-reference allowed)"""
    targets = [x for x in S if x["name"] <= t["name"]]
    if not targets: return False
    r = rnd.choice(targets)
    n = rnd.choice([1, 1, 1, 2])
    src = [c[0] for c in t["cols"]]
    dst = [c[0] for c in r["cols"]]
    if len(src) < n or len(dst) < n: return False
    f = [name, rnd.sample(src, n), r["name"], ([0] if n == 1 and rnd.random() < 0.6 else rnd.sample(dst, n)), gen_fk_opts(rnd)]
    if any(_fcols(o) == _fcols(f) or o[0] == name for o in t["fks"]): return False
    t["fks"].append(f)
    return True


def gen_schema(rnd, maxt=4):
    nt = rnd.randint(1, maxt)
    names = rnd.sample(range(6), nt)
    S = [gen_table(rnd, n, n * 10) for n in names]
    for t in S:
        for j in range(rnd.choice([0, 0, 1, 1, 2])):
            add_fk(rnd, S, t, t["name"] * 10 + j)
    return S


def fix_fks(S):
    """drop foreign keys whose source / referred columns or referred table no longer exist"""
    cols = {t["name"]: {c[0] for c in t["cols"]} for t in S}
    for t in S:
        t["fks"] = [f for f in t["fks"] if f[2] in cols and set(f[1]) <= cols[t["name"]] and set(f[3]) <= cols[f[2]]]


MUTATIONS = ["add_table", "drop_table", "add_col", "drop_col", "null", "type", "type_args", "default", "default", "add_fk", "add_fk",
             "drop_fk", "change_fk", "add_ix", "add_uq",
             "drop_cons", "change_cols", "change_unique", "swap_kind", "rename_cons"]


def mutate(rnd, S, kind=None):
    """one random change; returns (new schema, description) or (None, None) if not applicable"""
    import copy
    B = copy.deepcopy(S)
    kind = kind or rnd.choice(MUTATIONS)
    used_k = {k[1] for t in B for k in t["cons"]}
    if kind == "add_table":
        free = [n for n in range(6) if n not in [t["name"] for t in B]]
        if not free: return None, None
        n = rnd.choice(free)
        t = gen_table(rnd, n, n * 10)
        t["cons"] = [k for k in t["cons"] if k[1] not in used_k]
        B.append(t)
        if rnd.random() < 0.4:
            add_fk(rnd, B, t, n * 10)
        return B, [kind, n]
    if kind == "drop_table":
        if len(B) < 2: return None, None
        t = rnd.choice(B)
        B.remove(t)
        fix_fks(B)
        return B, [kind, t["name"]]
    t = rnd.choice(B)
    if kind == "add_fk":
        free = [n for n in range(t["name"] * 10, t["name"] * 10 + 10) if n not in [f[0] for f in t["fks"]]]
        if not free or not add_fk(rnd, B, t, rnd.choice(free)): return None, None
        return B, [kind, t["name"], t["fks"][-1][0]]
    if kind in ("drop_fk", "change_fk"):
        if not t["fks"]: return None, None
        f = rnd.choice(t["fks"])
        t["fks"].remove(f)
        if kind == "change_fk":
            if rnd.random() < 0.5:      # same columns and target, other options (possibly only another spelling of the same ones)
                g2 = list(f[:4]) + [gen_fk_opts(rnd, 1.0)]
                if any(_fcols(o) == _fcols(g2) for o in t["fks"]): return None, None
                t["fks"].append(g2)
            elif not add_fk(rnd, B, t, f[0]): return None, None
        return B, [kind, t["name"], f[0]]
    nonpk = [c for c in t["cols"] if not c[4]]
    if kind == "add_col":
        n = max(c[0] for c in t["cols"]) + 1 + rnd.randint(0, 1)
        fam, args = rnd.choice(TYPE_CATALOGUE)
        d = gen_default(rnd)
        t["cols"].append([n, fam, list(args), rnd.random() < 0.7, False, d])
        return B, [kind, t["name"], n]
    if kind == "drop_col":
        if not nonpk: return None, None
        c = rnd.choice(nonpk)
        t["cols"].remove(c)
        keep = []
        for k in t["cons"]:
            if c[0] in k[2]:
                if len(k[2]) > 1 and rnd.random() < 0.5:
                    k[2] = [x for x in k[2] if x != c[0]]
                    if any(_sig(o) == _sig(k) for o in keep): continue
                else:
                    continue
            keep.append(k)
        # surviving constraints must still have pairwise different column sets
        seen, keep2 = set(), []
        for k in keep:
            if _sig(k) in seen: continue
            seen.add(_sig(k)); keep2.append(k)
        t["cons"] = keep2
        fix_fks(B)
        return B, [kind, t["name"], c[0]]
    if kind in ("null", "type", "type_args", "default"):
        if not nonpk: return None, None
        c = rnd.choice(nonpk)
        if kind == "null":
            c[3] = not c[3]
            while len(c) < 7: c.append(True)
            c[6] = True
        elif kind == "default":
            if c[5] is not None and c[5][0] == "comp": return None, None
            d = near_miss(rnd, c[5]) if (c[5] is not None and rnd.random() < 0.4) else gen_default(rnd, 0.75)
            if d == c[5]: return None, None
            c[5] = d
        elif kind == "type":
            fam, args = rnd.choice([x for x in TYPE_CATALOGUE if x[0] != c[1]])
            c[1], c[2] = fam, list(args)
        else:
            alts = [x for x in TYPE_CATALOGUE if x[0] == c[1] and list(x[1]) != c[2]]
            if not alts: return None, None
            c[2] = list(rnd.choice(alts)[1])
        return B, [kind, t["name"], c[0]]
    if kind in ("add_ix", "add_uq"):
        free = [n for n in range(t["name"] * 10, t["name"] * 10 + 10) if n not in used_k]
        if not free: return None, None
        n = rnd.choice(free)
        if not add_cons(rnd, t, n, "ix" if kind == "add_ix" else "uq"): return None, None
        return B, [kind, t["name"], n]
    if not t["cons"]: return None, None
    k = rnd.choice(t["cons"])
    others = [o for o in t["cons"] if o is not k]
    if kind == "drop_cons":
        t["cons"].remove(k)
    elif kind == "change_cols":
        names = [c[0] for c in t["cols"]]
        for _ in range(5):
            cs = rnd.sample(names, rnd.randint(1, min(3, len(names))))
            if cs != k[2] and not any(_sig(o) == frozenset(cs) for o in others):
                k[2] = cs
                break
        else:
            return None, None
    elif kind == "change_unique":
        if k[0] != "ix": return None, None
        k[3] = not k[3]
    elif kind == "swap_kind":
        i = t["cons"].index(k)
        t["cons"][i] = ["ix", k[1], k[2], rnd.random() < 0.5] if k[0] == "uq" else ["uq", k[1], k[2]]
    elif kind == "rename_cons":
        free = [n for n in range(t["name"] * 10, t["name"] * 10 + 10) if n not in used_k]
        if not free: return None, None
        k[1] = rnd.choice(free)
    return B, [kind, t["name"], k[1]]


def no_dangling(A, B):
    """side condition of C06: no table dropped by A -> B is still referenced by a table of A that stays"""
    bn = {t["name"] for t in B}
    return all(f[2] in bn for t in A if t["name"] in bn for f in t["fks"])


def fk_names_ok(A, B):
    """mirrors Diff.v fk_names_ok: a foreign key name of B that also names a key of the same table in A whose signature B still
    wants must name that same signature"""
    ta = {t["name"]: t for t in A}
    for m in B:
        c = ta.get(m["name"])
        if c is None: continue
        msigs = {_fsig(f) for f in m["fks"]}
        for mf in m["fks"]:
            for cf in c["fks"]:
                if cf[0] == mf[0] and fk_named(mf) and _fsig(cf) in msigs and _fsig(cf) != _fsig(mf):
                    return False
    return True


def gen_pair(rnd):
    """A and a B that shares most objects with it"""
    while True:
        A, B, desc = _gen_pair(rnd)
        if no_dangling(A, B) and fk_names_ok(A, B):
            return A, B, desc


def _gen_pair(rnd):
    A = gen_schema(rnd)
    B = A
    desc = []
    r = rnd.random()
    nmut = 0 if r < 0.05 else rnd.choice([1, 1, 2, 2, 3, 4, 6])
    for _ in range(nmut):
        B2, d = mutate(rnd, B)
        if B2 is not None:
            B, desc = B2, desc + [d[0]]
    if rnd.random() < 0.15:
        B = list(B)
        rnd.shuffle(B)
    return A, B, desc


# ----------------------------------------------------------------------------- C07: the mutation catalogue
MUT_KINDS = ["add_table", "drop_table", "add_column", "drop_column", "flip_nullable", "change_type", "change_default", "add_cons",
             "drop_cons", "change_cons", "add_fk", "drop_fk"]


def norm_default(d):
    """the documented normalisation of SQLiteImpl.compare_server_default (two re.sub calls), on the default's text"""
    if d is None: return None
    if d[0] == "comp": return ("computed",)
    t = re.sub(r"^\((.+)\)$", r"\1", d[1])
    return re.sub(r"^\"?'(.+)'\"?$", r"\1", t)


def types_match(f1, f2):
    return f1 == f2 or (f1 in (5, 6) and f2 in (5, 6))


def gen_mutation(rnd, A, kind, tname=None):
    """a mutation of the given kind applicable to A such that m(A) is well formed, or None (tname: on that table)"""
    used_k = {k[1] for t in A for k in t["cons"]}
    if kind == "add_table":
        free = [n for n in range(6) if n not in [t["name"] for t in A]]
        if not free: return None
        n = rnd.choice(free)
        t = gen_table(rnd, n, n * 10)
        t["cons"] = [k for k in t["cons"] if k[1] not in used_k]
        if rnd.random() < 0.5:
            add_fk(rnd, A + [t], t, n * 10)
        return [kind, t]
    if kind == "drop_table":
        free = [t for t in A if not any(f[2] == t["name"] for o in A if o is not t for f in o["fks"])]
        if not free: return None
        return [kind, rnd.choice(free)["name"]]
    pool = [x for x in A if tname is None or x["name"] == tname]
    if not pool: return None
    t = rnd.choice(pool)
    nonpk = [c for c in t["cols"] if not c[4]]
    if kind == "add_column":
        n = max(c[0] for c in t["cols"]) + 1 + rnd.randint(0, 1)
        fam, args = rnd.choice(TYPE_CATALOGUE)
        d = gen_default(rnd)
        return [kind, t["name"], [n, fam, list(args), rnd.random() < 0.7, False, d]]
    if kind == "drop_column":
        free = [c for c in nonpk if not any(c[0] in k[2] for k in t["cons"]) and not any(c[0] in u[1] for u in t.get("uuqs", []))
                and not any(c[0] in f[1] for f in t["fks"])
                and not any(f[2] == t["name"] and c[0] in f[3] for o in A for f in o["fks"])]
        if not free: return None
        return [kind, t["name"], rnd.choice(free)[0]]
    if kind == "flip_nullable":
        comp = [c for x in A for c in x["cols"] if c[5] is not None and c[5][0] == "comp"]
        if comp and rnd.random() < 0.7:         # prefer a generated column when the base has one
            t = rnd.choice([x for x in A if any(c[5] is not None and c[5][0] == "comp" for c in x["cols"])])
            return [kind, t["name"], rnd.choice([c for c in t["cols"] if c[5] is not None and c[5][0] == "comp"])[0]]
        if not nonpk: return None
        return [kind, t["name"], rnd.choice(nonpk)[0]]
    if kind == "change_type":
        if not nonpk: return None
        c = rnd.choice(nonpk)
        fam, args = rnd.choice([x for x in TYPE_CATALOGUE if not types_match(x[0], c[1])])
        return [kind, t["name"], c[0], [fam, list(args)]]
    if kind == "change_default":
        nonpk = [c for c in nonpk if not (c[5] is not None and c[5][0] == "comp")]      # a generated column cannot be altered
        if not nonpk: return None
        c = rnd.choice(nonpk)
        d = near_miss(rnd, c[5]) if (c[5] is not None and rnd.random() < 0.5) else gen_default(rnd, 0.7)
        if norm_default(d) == norm_default(c[5]): return None
        return [kind, t["name"], c[0], d]
    if kind == "add_fk":
        import copy
        A2 = copy.deepcopy(A)
        t2 = [x for x in A2 if x["name"] == t["name"]][0]
        free = [n for n in range(t["name"] * 10, t["name"] * 10 + 10) if n not in [f[0] for f in t["fks"]]]
        if not free or not add_fk(rnd, A2, t2, rnd.choice(free)): return None
        return [kind, t["name"], t2["fks"][-1]]
    if kind == "drop_fk":
        if not t["fks"]: return None
        return [kind, t["name"], rnd.choice(t["fks"])[0]]
    if kind == "add_cons":
        free = [n for n in range(t["name"] * 10, t["name"] * 10 + 10) if n not in used_k]
        if not free: return None
        import copy
        t2 = copy.deepcopy(t)
        if not add_cons(rnd, t2, rnd.choice(free)): return None
        return [kind, t["name"], t2["cons"][-1]]
    if not t["cons"]: return None
    k = rnd.choice(t["cons"])
    if kind == "drop_cons":
        return [kind, t["name"], k[1]]
    if kind == "change_cons":
        others = [o for o in t["cons"] if o is not k]
        names = [c[0] for c in t["cols"]]
        new = list(k)
        if k[0] == "ix" and rnd.random() < 0.4:
            new[3] = not k[3]
            return [kind, t["name"], new]
        for _ in range(8):
            cs = rnd.sample(names, rnd.randint(1, min(3, len(names))))
            if any(_sig(o) == frozenset(cs) for o in others): continue
            if k[0] == "uq" and frozenset(cs) == _sig(k): continue
            if k[0] == "ix" and cs == k[2]: continue
            new[2] = cs
            return [kind, t["name"], new]
        return None
    raise AssertionError(kind)


def apply_mutation(A, m):
    """mirrors Spec/C07.v apply_mut"""
    import copy
    B = copy.deepcopy(A)
    kind = m[0]
    if kind == "add_table":
        return B + [copy.deepcopy(m[1])]
    if kind == "drop_table":
        return [t for t in B if t["name"] != m[1]]
    for t in B:
        if t["name"] != m[1]: continue
        if kind == "add_column": t["cols"].append(list(m[2]))
        elif kind == "drop_column": t["cols"] = [c for c in t["cols"] if c[0] != m[2]]
        elif kind == "flip_nullable":
            for c in t["cols"]:
                if c[0] == m[2]:
                    c[3] = not c[3]
                    while len(c) < 7: c.append(True)
                    c[6] = True            # the changed model states the new nullability explicitly
        elif kind == "change_type":
            for c in t["cols"]:
                if c[0] == m[2]: c[1], c[2] = m[3][0], list(m[3][1])
        elif kind == "change_default":
            for c in t["cols"]:
                if c[0] == m[2]: c[5] = None if m[3] is None else list(m[3])
        elif kind == "add_fk": t["fks"].append(list(m[2]))
        elif kind == "drop_fk": t["fks"] = [f for f in t["fks"] if f[0] != m[2]]
        elif kind == "add_cons": t["cons"].append(list(m[2]))
        elif kind == "drop_cons": t["cons"] = [k for k in t["cons"] if k[1] != m[2]]
        elif kind == "change_cons": t["cons"] = [list(m[2]) if k[1] == m[2][1] else k for k in t["cons"]]
        else: raise AssertionError(kind)
    return B


# ---- several changes at once (Spec/C07.v: stages, seq_ok)
def mut_target(m):
    k = m[0]
    if k == "add_table": return ("t", m[1]["name"])
    if k == "drop_table": return ("t", m[1])
    if k == "add_column": return ("c", m[1], m[2][0])
    if k in ("drop_column", "flip_nullable", "change_type", "change_default"): return ("c", m[1], m[2])
    if k in ("add_cons", "change_cons"): return ("k", m[1], m[2][1])
    if k == "drop_cons": return ("k", m[1], m[2])
    if k == "add_fk": return ("f", m[1], m[2][0])
    if k == "drop_fk": return ("f", m[1], m[2])
    raise AssertionError(k)


def _inside(t):
    n = t["name"]
    return [("t", n)] + [("c", n, c[0]) for c in t["cols"]] + [("k", n, k[1]) for k in t["cons"]] + [("f", n, f[0]) for f in t["fks"]]


def mut_touches(A, m):
    if m[0] == "add_table": return _inside(m[1])
    if m[0] == "drop_table":
        tb = [t for t in A if t["name"] == m[1]]
        return _inside(tb[0]) if tb else [("t", m[1])]
    return [mut_target(m)]


_ALTER = {"flip_nullable": 0, "change_type": 1, "change_default": 2}


def _indep2(x, y):
    (Ax, mx), (Ay, my) = x, y
    if {mx[0], my[0]} == {"add_fk", "drop_fk"} and mx[1] == my[1]: return False
    for a, b in ((mx, my), (my, mx)):      # a change to a table the list adds / removes is part of that addition / removal
        if a[0] in ("add_table", "drop_table") and mut_target(a)[1] == mut_target(b)[1]: return False
    if mx[0] in _ALTER and my[0] in _ALTER:
        if mx[0] != my[0] and mut_target(mx) == mut_target(my): return True
    return mut_target(mx) not in mut_touches(Ay, my) and mut_target(my) not in mut_touches(Ax, mx)


def seq_ok(A, ms):
    """mirrors Spec/C07.v seq_ok up to applicability (which the generators guarantee stage by stage)"""
    st = []
    for m in ms:
        st.append((A, m))
        A = apply_mutation(A, m)
    return all(_indep2(st[i], st[j]) for i in range(len(st)) for j in range(i + 1, len(st)))


def apply_mutations(A, ms):
    for m in ms:
        A = apply_mutation(A, m)
    return A


_TABLE_KINDS = ["add_column", "drop_column", "flip_nullable", "change_type", "change_default", "add_cons", "drop_cons", "change_cons",
                "add_fk", "drop_fk"]


def gen_mut_seq(rnd, A, shape):
    """a list of >= 2 non-interfering catalogue mutations, each applicable where it is applied, or None
    shapes: same_table (2-4 changes inside one table; half of them contain a removed column together with at least as many
    added ones), drop_target (a table removed together with every foreign key that pointed at it from tables that stay),
    add_target (a table added together with a foreign key to it from a table that was there), mixed (anything)"""
    import copy
    ms, cur = [], copy.deepcopy(A)

    def push(m):
        nonlocal cur
        if m is None: return False
        if not seq_ok(A, ms + [m]): return False
        nxt = apply_mutation(cur, m)
        if uuq_clash(nxt): return False
        ms.append(m)
        cur = nxt
        return True

    if shape == "drop2_add1":        # one table loses at least two columns and gains at least one
        t = rnd.choice(A)["name"]
        for _ in range(rnd.randint(2, 3)):
            push(gen_mutation(rnd, cur, "drop_column", t))
        if len(ms) < 2: return None
        for _ in range(rnd.randint(1, 2)):
            push(gen_mutation(rnd, cur, "add_column", t))
        if len(ms) < 3 or ms[-1][0] != "add_column": return None
        for _ in range(rnd.randint(0, 1)):
            push(gen_mutation(rnd, cur, rnd.choice(_TABLE_KINDS), t))
    elif shape == "cons_table":        # 2-4 index / unique-constraint changes (and maybe another change) inside one table
        t = rnd.choice(A)["name"]
        for _ in range(rnd.randint(2, 4)):
            push(gen_mutation(rnd, cur, rnd.choice(["add_cons", "drop_cons", "drop_cons", "change_cons"]), t))
        if rnd.random() < 0.5:
            push(gen_mutation(rnd, cur, rnd.choice(_TABLE_KINDS), t))
    elif shape == "same_table":
        t = rnd.choice(A)["name"]
        if rnd.random() < 0.5:
            if not push(gen_mutation(rnd, cur, "drop_column", t)): return None
            for _ in range(rnd.randint(1, 2)):
                push(gen_mutation(rnd, cur, "add_column", t))
        for _ in range(rnd.randint(1, 3)):
            push(gen_mutation(rnd, cur, rnd.choice(_TABLE_KINDS), t))
    elif shape == "drop_target":
        cands = [t["name"] for t in A if any(f[2] == t["name"] for o in A if o is not t for f in o["fks"])]
        if not cands: return None
        n = rnd.choice(cands)
        for o in A:
            if o["name"] != n:
                for f in o["fks"]:
                    if f[2] == n and not push(["drop_fk", o["name"], f[0]]): return None
        if not push(["drop_table", n]): return None
        for _ in range(rnd.randint(0, 2)):
            push(gen_mutation(rnd, cur, rnd.choice(_TABLE_KINDS)))
    elif shape == "add_target":
        free = [n for n in range(6) if n not in [t["name"] for t in A]]
        if not free: return None
        n = rnd.choice(free)
        t = gen_table(rnd, n, n * 10)
        used_k = {k[1] for x in A for k in x["cons"]}
        t["cons"] = [k for k in t["cons"] if k[1] not in used_k]
        if not push(["add_table", t]): return None
        s = rnd.choice(A)
        free = [x for x in range(s["name"] * 10, s["name"] * 10 + 10) if x not in [f[0] for f in s["fks"]]]
        src = [c[0] for c in s["cols"] if not any(c[0] in f[1] for f in s["fks"])]
        if not free or not src: return None
        if not push(["add_fk", s["name"], [rnd.choice(free), [rnd.choice(src)], n, [0], gen_fk_opts(rnd)]]): return None
        for _ in range(rnd.randint(0, 2)):
            push(gen_mutation(rnd, cur, rnd.choice(_TABLE_KINDS)))
    else:
        for _ in range(rnd.randint(2, 4)):
            push(gen_mutation(rnd, cur, rnd.choice(MUT_KINDS)))
    return ms if len(ms) >= 2 else None


def q_mut(m):
    k = m[0]
    if k == "add_table": return "(MAddTable %s)" % q_table(m[1])
    if k == "drop_table": return "(MDropTable %d)" % m[1]
    if k == "add_column": return "(MAddColumn %d %s)" % (m[1], q_col(m[2]))
    if k == "drop_column": return "(MDropColumn %d %d)" % (m[1], m[2])
    if k == "flip_nullable": return "(MFlipNullable %d %d)" % (m[1], m[2])
    if k == "change_type": return "(MChangeType %d %d %s)" % (m[1], m[2], q_ty(*m[3]))
    if k == "change_default": return "(MChangeDefault %d %d %s)" % (m[1], m[2], cf.opt(m[3], q_dflt))
    if k == "add_fk": return "(MAddFk %d %s)" % (m[1], q_fk(m[2]))
    if k == "drop_fk": return "(MDropFk %d %d)" % (m[1], m[2])
    if k == "add_cons": return "(MAddCons %d %s)" % (m[1], q_cons(m[2]))
    if k == "drop_cons": return "(MDropCons %d %d)" % (m[1], m[2])
    if k == "change_cons": return "(MChangeCons %d %s)" % (m[1], q_cons(m[2]))
    raise AssertionError(k)


COMPUTED = [["comp", "c0 + 1", None], ["comp", "c0 * 2", False], ["comp", "c0 + 1", True], ["comp", "c0 - 3", None]]


def add_computed(rnd, S, p=0.5):
    """give some tables a generated column (outside C06: batch mode cannot rebuild such tables)"""
    for t in S:
        if rnd.random() < p:
            n = max(c[0] for c in t["cols"]) + 1
            fam = rnd.choice([0, 1, 5])
            nl = rnd.random() < 0.6
            t["cols"].append([n, fam, [], nl, False, list(rnd.choice(COMPUTED)), not (nl and rnd.random() < 0.5)])


def decorate(rnd, S, p=0.5):
    """give tables CHECK constraints and expression indexes (kept out of the Coq encoding): replaces any existing decoration"""
    for t in S:
        old = t.pop("deco", None) or {}
        if old.get("collate"):
            t["deco"] = {"collate": old["collate"]}
        if rnd.random() < p:
            cols = [c[0] for c in t["cols"] if not (c[5] is not None and c[5][0] == "comp")]
            d = {"checks": [], "eixs": []}
            for j in range(rnd.choice([0, 1, 1, 2])):
                d["checks"].append([t["name"] * 10 + j, "%s %s %d" % (cn(rnd.choice(cols)), rnd.choice([">", "<", "<>"]), rnd.randint(0, 9))])
            for j in range(rnd.choice([0, 1, 1, 2])):
                d["eixs"].append([t["name"] * 10 + j, rnd.choice(["func", "text"]), rnd.choice(cols)])
            if old.get("collate"): d["collate"] = old["collate"]
            t["deco"] = d


def add_uuqs(rnd, S_, p=0.8):
    """give tables ANONYMOUS unique constraints (reflected with name None on SQLite), single-column ones spelled Column(unique=True)
    half of the time; never over the column set of a named constraint / index"""
    for t in S_:
        t.setdefault("uuqs", [])
        if rnd.random() >= p: continue
        names = [c[0] for c in t["cols"] if not (c[5] is not None and c[5][0] == "comp")]
        for _ in range(rnd.choice([1, 1, 2])):
            cs = sorted(rnd.sample(names, rnd.randint(1, min(2, len(names)))))
            taken = [frozenset(k[2]) for k in t["cons"]] + [frozenset(u[1]) for u in t["uuqs"]]
            if frozenset(cs) in taken: continue
            t["uuqs"].append([900 + len(t["uuqs"]), cs] + ([True] if len(cs) == 1 and rnd.random() < 0.5 else []))


def uuq_clash(S_):
    """a named constraint / index over the column set of an anonymous unique constraint"""
    return any(frozenset(k[2]) == frozenset(u[1]) for t in S_ for k in t["cons"] for u in t.get("uuqs", []))


def add_collations(rnd, schemas, p=0.6):
    """give string columns a collation (String(20, collation='NOCASE')), the same columns in every schema of the list; kept out
    of the Coq encoding like the other decoration: SQLite reflects the bare type and the comparison looks at tokens only when
    both sides have as many"""
    names = sorted({(t["name"], c[0]) for S_ in schemas for t in S_ for c in t["cols"] if FAMS[c[1]] in ("VARCHAR", "TEXT")})
    chosen = {x for x in names if rnd.random() < p}
    for S_ in schemas:
        for t in S_:
            cs = sorted(c for (tname, c) in chosen if tname == t["name"])
            if cs:
                d = dict(t.get("deco") or {})
                d["collate"] = cs
                t["deco"] = d


def type_matrix(same_family_too):
    """every ordered pair of catalogue types on one column of a one-table schema"""
    for x in TYPE_CATALOGUE:
        for y in TYPE_CATALOGUE:
            if x == y: continue
            if not same_family_too and types_match(x[0], y[0]): continue
            A = [{"name": 0, "cols": [[0, 0, [], False, True, None], [1, x[0], list(x[1]), True, False, None]],
                  "cons": [["ix", 0, [1], False]], "fks": []}]
            yield A, [y[0], list(y[1])]
