#!/bin/bash
# Confirm every seeded change myself: in a scratch worktree outside /repo and /verif, apply the patch, run the demo
# (must fail), run the whole test suite (must equal the baseline: only the known failing test), revert, run the demo (must pass).
# Writes seeded/<id>/confirm.json.  Usage: tools_confirm_seeded.sh [id ...]
set -u
cd "$(dirname "$0")"
ids=${@:-$(ls seeded)}
W=$(mktemp -d /tmp/confirm-seeded.XXXX)
git -C /repo worktree add -q --detach "$W/wt" HEAD
for id in $ids; do
  d=seeded/$id; demo=$(python3 -c "import json;print(json.load(open('$d/meta.json'))['demo'])")
  cp $d/$demo "$W/wt/"
  ( cd "$W/wt" && git apply "$OLDPWD/$d/patch.diff" ) || { echo "$id: patch does not apply"; continue; }
  ( cd "$W/wt" && PYTHONPATH="$W/wt" /venv/bin/python $demo >/dev/null 2>&1 ); with=$?
  suite=$( cd "$W/wt" && PYTHONPATH="$W/wt" /venv/bin/python -m pytest -q -p no:cacheprovider -n 8 2>&1 | tail -1 )
  ( cd "$W/wt" && git checkout -q -- alembic )
  ( cd "$W/wt" && PYTHONPATH="$W/wt" /venv/bin/python $demo >/dev/null 2>&1 ); without=$?
  rm -f "$W/wt/$demo"
  python3 - "$d" "$with" "$without" "$suite" <<'PY'
import json,sys
d,w,wo,s=sys.argv[1:5]
json.dump({"demo_exit_with_change":int(w),"demo_exit_without_change":int(wo),"suite_with_change":s.strip("= \n")},open(d+"/confirm.json","w"),indent=1)
print(d,w,wo,s.strip("= \n"))
PY
done
git -C /repo worktree remove --force "$W/wt"; rm -rf "$W"
