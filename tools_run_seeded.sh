#!/bin/bash
# Run a check against a seeded change WITHOUT touching /repo: the alembic package is copied to a scratch
# directory outside /repo and /verif, the patch is applied there, and the check runs with VERIF_REPO.
# Usage: tools_run_seeded.sh <Cxx> <patch file> [<Cxx> <patch file> ...]
cd "$(dirname "$0")"
S=$(mktemp -d /tmp/seedrun.XXXX)
while [ $# -ge 2 ]; do
  prop=$1; patch=$2; shift 2
  echo "== $prop $patch"
  rm -rf "$S/repo"; mkdir -p "$S/repo"; cp -r /repo/alembic "$S/repo/"
  if (cd "$S/repo" && patch -p1 -s < "$patch" >/dev/null 2>&1); then
    VERIF_NO_EVIDENCE=1 VERIF_REPO="$S/repo" ./check "$prop" 2>&1 | grep -v "^KNOWN" | tail -2
  else
    echo "PATCH DOES NOT APPLY"
  fi
done
rm -rf "$S"
