#!/venv/bin/python
"""Regenerate MANIFEST.json from the plugins present under harness/props (never typed by hand)."""
import importlib, json, os, sys
sys.path.insert(0, os.path.dirname(os.path.abspath(__file__)))
os.environ.setdefault("PYTHONPATH", "/repo")
ALL = ["C%02d" % i for i in range(1, 21)]
checks, na = [], []
for pid in ALL:
    modf = os.path.join("harness", "props", pid.lower() + ".py")
    ready = set(open("harness/ready.txt").read().split())
    if not os.path.exists(modf) or pid not in ready:
        na.append({"property_id": pid, "reason": "model, theorems and correspondence not built yet in this session; "
                   "not claimed until Properties/%s.v compiles closed and its correspondence runs (DESIGN.md section 9)" % pid})
        continue
    m = importlib.import_module("harness.props." + pid.lower())
    checks.append({
        "property_id": pid,
        "quick_cmd": "./check %s --tier quick" % pid,
        "thorough_cmd": "./check %s --tier thorough" % pid,
        "evidence_file": "/verif/evidence/%s.json" % pid,
        "replay_cmd_template": "./check %s --replay {path}" % pid,
        "engine": "coq-model+corr-harness",
        "level_claimed": {"category": "proof", "text": m.LEVEL_TEXT, "design_ref": m.DESIGN_REF},
        "level_note": m.LEVEL_NOTE,
        "technique": m.TECHNIQUE,
    })
man = {
    "version": 1,
    "setup_cmd": "./check --setup",
    "hooks": {"guard": "ALEMBIC_VERIF", "enable": "no source hook is needed: the harness drives public and private "
              "Python entry points of /repo's working tree (PYTHONPATH=/repo)", 
              "baseline_off_cmd": "cd /repo && /venv/bin/python -m pytest -ra -q -p no:cacheprovider --timeout=900 --continue-on-collection-errors",
              "source_commits": [], "add_only": True},
    "engines": [
        {"name": "coq-model", "path": "coq/", "serves_properties": [c["property_id"] for c in checks],
         "kind_free_text": "Coq 8.16.1 development: executable Gallina models of the anchored Python functions, Prop-level "
                           "specifications with boolean deciders, machine-checked theorems (statement files under coq/Properties)"},
        {"name": "corr-harness", "path": "harness/", "serves_properties": [c["property_id"] for c in checks],
         "kind_free_text": "Python correspondence engine: runs the real alembic from /repo's working tree and the Coq model "
                           "(vm_compute on generated case files) on the same inputs, compares exactly, applies the proved decider "
                           "to the implementation's outputs"}],
    "checks": checks,
    "not_applicable": na,
    "notes": "fix: commits in /repo repair genuine defects found while building (see known_findings.json 'fixed' and DESIGN.md section 6)",
}
json.dump(man, open("MANIFEST.json", "w"), indent=1)
print("MANIFEST: %d checks, %d not claimed" % (len(checks), len(na)))
